#!/usr/bin/env python3
"""usage: add_meta.py CNN 'level text' ['level note' ['technique']]"""
import json, sys, os
p = os.path.join(os.path.dirname(os.path.abspath(__file__)), "vf/props/meta.json")
m = json.load(open(p))
NOTE = ("Trusted: z3; the engine's proxy-value semantics (validated on every path by a concrete re-run of the unmodified library on a model of "
        "the path condition); the environment models listed in the evidence (stubs). Bounds as in evidence coverage.bounds; nothing is claimed outside them.")
TECH = "symbolic execution of the real Python code (proxy values over z3 Int), SMT query per obligation and path, concrete replay of every counterexample"
pid = sys.argv[1]
m[pid] = dict(level_text=sys.argv[2], level_note=sys.argv[3] if len(sys.argv) > 3 and sys.argv[3] else NOTE,
              technique=sys.argv[4] if len(sys.argv) > 4 else TECH)
json.dump(m, open(p, "w"), indent=1, sort_keys=True)
