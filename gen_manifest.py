#!/usr/bin/env python3
"""Regenerates MANIFEST.json from the list of built property modules."""
import json, os, sys
HERE = os.path.dirname(os.path.abspath(__file__))
sys.path.insert(0, HERE)
BASE = "cd /repo && /venv/bin/python -m pytest -ra -q -p no:cacheprovider --timeout=900 --continue-on-collection-errors"
props = [json.loads(l) for l in open(os.path.join(HERE, "properties.jsonl"))]
meta = json.load(open(os.path.join(HERE, "vf", "props", "meta.json")))
checks, na = [], []
for p in props:
    pid = p["id"]
    m = meta.get(pid)
    if not m or m.get("not_applicable"):
        na.append(dict(property_id=pid, reason=(m or {}).get("not_applicable", "check not built yet in this round; planned per DESIGN.md section 6")))
        continue
    checks.append(dict(
        property_id=pid,
        quick_cmd=f"./check {pid} --tier quick",
        thorough_cmd=f"./check {pid} --tier thorough",
        evidence_file=f"/verif/evidence/{pid}.json",
        replay_cmd_template=f"./check {pid} --replay {{path}}",
        engine="symx",
        level_claimed=dict(category="model_checking", text=m["level_text"], design_ref=m.get("design_ref", f"DESIGN.md section 6, {pid}")),
        level_note=m["level_note"],
        technique=m["technique"],
    ))
man = dict(
    version=1,
    setup_cmd="./check --setup",
    hooks=dict(guard="none", enable="n/a: no source hooks; environment models are injected into the namespaces of the imported /repo modules at run time",
               baseline_off_cmd=BASE, source_commits=[], add_only=True),
    engines=[dict(name="symx", path="/verif/vf/engine.py", serves_properties=[c["property_id"] for c in checks],
                  kind_free_text="bounded symbolic execution of the real Python modules by proxy values over z3 (path-wise, DFS by re-execution), per-path concrete re-validation, replay before report"),
             dict(name="crosshair", path="/verif/vf/xhair/kernels.py", serves_properties=["C02", "C13", "C15"],
                  kind_free_text="crosshair-tool 0.0.110: second, independent symbolic-execution engine (z3) on leaf kernels calling the real library; counterexamples replayed concretely"),
             dict(name="second-solver", path="/verif/vf/engine.py", serves_properties=["C08"],
                  kind_free_text="SMT-LIB2 dump of the one-shot query re-decided by /usr/bin/z3 4.8.12 (and cvc5 1.0.3 in the thorough tier)")],
    checks=checks,
    not_applicable=na,
    notes="All checks regenerate their encoding from /repo's working tree on every run (the library is imported and executed symbolically). Exit 0 held / 1 violation (replayed) / 2 inconclusive or harness fault.",
)
json.dump(man, open(os.path.join(HERE, "MANIFEST.json"), "w"), indent=1)
print(len(checks), "checks,", len(na), "not applicable")
