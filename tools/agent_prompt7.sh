#!/bin/bash
# usage: agent_prompt.sh C01
ID=$1
[ -f /tmp/prop-$ID.txt ] || /venv/bin/python - <<'PY'
import json
for l in open('/verif/properties.jsonl'):
    p=json.loads(l)
    open(f"/tmp/prop-{p['id']}.txt","w").write(f"{p['id']} — {p['title']}\n\nStatement: {p['statement']}\n\nQuantifier: {p['quantifier']['text']}\n\nWhy tests cannot settle it: {p['why_tests_cant']}\n\nAnchor files: {', '.join(p['anchors']['files'])}\n")
PY
cat <<EOF
You are helping test a verification framework by producing realistic faulty variants ("seeded bugs") of a Python library. Work ONLY inside the git worktree /tmp/wt-$ID (a checkout of the library Pabloo22/job_shop_lib, a pure-Python job shop scheduling library). Do not touch /repo, do not look at /verif (it is off limits), and do not create other worktrees.

The library should satisfy this semantic property:

$(cat /tmp/prop-$ID.txt)

Your task: produce ONE change (called A) to the library source (under /tmp/wt-$ID/job_shop_lib/) which BREAKS this property, while the package still imports and the existing test suite still passes completely. Run the suite with:
  cd /tmp/wt-$ID && /venv/bin/python -m pytest -q -p no:cacheprovider -x --timeout=900 2>&1 | tail -5
(run from inside the worktree so that the worktree's copy of job_shop_lib is imported; all 190 tests must pass with your change applied).

Requirements for each change:
- It must look like a plausible maintainer mistake or "optimisation"/refactor (off-by-one, wrong comparison at a tie, stale cache, missing reset of one field, wrong variable, a fast path that is wrong only for some inputs, two cooperating sites that each look fine alone, ...), NOT an obviously malicious special case like "if duration == 7".
- It must need something specific to manifest: a particular interleaving, a tie between times, a zero duration, a flexible (multi-machine) operation, recirculation, a second episode/reset, a particular order of queries, a multi-step sequence, an unusual but valid input... NOT something ordinary use exposes at once (the existing tests must not notice).
- It must break the property as stated above on some valid input, observable through the library's public API.
- Keep each change small (a few lines).
- The change must NOT rely on zero-duration operations, flexible (multi-machine) operations, a reset/second episode of the same object, or a single flipped comparison. It must manifest only through STATE SHARED BETWEEN OBJECTS OR LEAKING ACROSS THEM: e.g. a class-level or module-level mutable cache/default, an lru_cache or memo keyed too coarsely (by id, by name, by shape), a list or array handed out by one object and aliased/mutated by another, two dispatchers / observers / environments / builders / generators built on the same instance (or on two different instances one after the other in the same process) influencing each other, a second observer of the same type, an instance or schedule reused by a second solver/plotter/graph. A single object used alone, in a fresh process, must behave correctly. Prefer files and functions other than the single most obvious one for this property. You have about 12 minutes: keep it simple, finish the deliverables.

Deliverables (write them into /tmp/wt-$ID/_seeded/):
- /tmp/wt-$ID/_seeded/A/patch.diff and /tmp/wt-$ID/_seeded/(unused) : each a 'git diff' of ONLY the library change against HEAD (produce with 'git -C /tmp/wt-$ID diff -- job_shop_lib > ...' while only that change is applied; the patch must apply to a clean checkout with 'git apply').
- /tmp/wt-$ID/_seeded/A/demo.py : a small standalone program (run as: cd <checkout> && /venv/bin/python _seeded/A/demo.py, or with PYTHONPATH=<checkout>) that uses only the public API, exits 0 on the ORIGINAL code and exits non-zero (assertion failure) when the change is applied, demonstrating the property violation. Make the demo import job_shop_lib from the current working directory (insert os.getcwd() at the front of sys.path).
- /tmp/wt-$ID/_seeded/A/meta.json with keys: property ("$ID"), summary (one sentence: what was changed), needs (what specific circumstance is needed for it to manifest), files (list of changed files).

Procedure: make change A, run the full test suite (must pass), run the demo (must fail), save the diff, then 'git -C /tmp/wt-$ID checkout -- job_shop_lib' to restore, check the demo passes on the original; then do the same for B. At the end leave the worktree's job_shop_lib directory restored to the ORIGINAL state (git checkout), with only the _seeded/ directory added.

Finally reply with a short summary: for each of A and B, what the change is, what it needs to manifest, and confirmation that (1) the suite passed with it, (2) the demo fails with it and passes without it.
EOF
