#!/bin/bash
# usage: agent_prompt_refactor.sh <worktree-name> "<file list / area description>"
WT=$1; AREA=$2
cat <<EOF
You are helping test a verification framework for false alarms. Work ONLY inside the git worktree /tmp/$WT (a checkout of the Python library Pabloo22/job_shop_lib, a pure-Python job shop scheduling library). Do not touch /repo, do not look at /verif (off limits), do not create other worktrees.

Your task: produce THREE independent BEHAVIOUR-PRESERVING refactorings of the library source, each touching this area: $AREA

A behaviour-preserving refactoring changes HOW the code computes its results but not WHAT any public function, method, property or attribute returns, raises or mutates, for ANY valid input (including zero durations, flexible multi-machine operations, recirculation, irregular jobs, unused machine ids, repeated resets, any order of calls). Think of what a careful maintainer would do: change a caching strategy (e.g. cache under different keys, compute eagerly instead of lazily, invalidate differently but correctly), replace loops by comprehensions or numpy vectorisation (or the reverse), restructure control flow, rename or add PRIVATE attributes/helpers (names starting with an underscore), split or merge private functions, change internal data structures (list <-> deque <-> dict) while returning the same public values, reorder independent statements, add defensive copies. Do NOT change public names, signatures, return types, exception types for invalid input, documented behaviour, or the order of elements in returned lists. Each refactoring should be non-trivial (at least ~10 changed lines) and the three should differ in kind.

The full test suite must still pass with each refactoring applied (run from inside the worktree so its copy of the package is imported):
  cd /tmp/$WT && /venv/bin/python -m pytest -q -p no:cacheprovider -x --timeout=900 2>&1 | tail -3
(190 tests). In addition, convince yourself by reasoning and by a small differential script (old vs new results on a few hundred random small instances including zero durations, flexible operations, recirculation, resets) that behaviour really is unchanged; if you find a difference, fix the refactoring, do not deliver it.

Deliverables (write into /tmp/$WT/_refactor/):
- /tmp/$WT/_refactor/1/patch.diff, 2/patch.diff, 3/patch.diff : each a 'git diff -- job_shop_lib' of ONLY that refactoring against HEAD (must apply to a clean checkout with 'git apply').
- /tmp/$WT/_refactor/N/meta.json with keys: summary (what was refactored and how), files (changed files), why_equivalent (one or two sentences).
Procedure: make refactoring 1, run the suite, save the diff, 'git -C /tmp/$WT checkout -- job_shop_lib'; same for 2 and 3. Leave job_shop_lib restored to the ORIGINAL state at the end, with only _refactor/ added.

Reply with a short summary of the three refactorings and confirmation that the suite passed with each.
EOF
