#!/bin/bash
# usage: confirm_seed.sh C01 A  -- confirms a sub-agent's seeded change in its scratch worktree and files it under /verif/seeded/
ID=$1; V=$2; NAME=${3:-$2}; WT=/tmp/wt-$ID; S=$WT/_seeded/$V
cd $WT || exit 9
git checkout -q -- job_shop_lib
/venv/bin/python $S/demo.py >/dev/null 2>&1; D0=$?
git apply $S/patch.diff || { echo "patch does not apply"; exit 8; }
T=$(/venv/bin/python -m pytest -q -p no:cacheprovider --timeout=900 2>&1 | tail -1)
/venv/bin/python $S/demo.py >/dev/null 2>&1; D1=$?
git checkout -q -- job_shop_lib
echo "$ID-$V: demo(original)=$D0 demo(patched)=$D1 tests: $T"
if [ $D0 -eq 0 ] && [ $D1 -ne 0 ] && echo "$T" | grep -q "190 passed"; then
  mkdir -p /verif/seeded/$ID-$NAME; cp $S/patch.diff $S/demo.py /verif/seeded/$ID-$NAME/
  /venv/bin/python - <<PY
import json
m=json.load(open("$S/meta.json"))
m["confirmed"]={"tests_with_patch":"$T".strip(),"demo_exit_original":$D0,"demo_exit_patched":$D1,
 "how":"scratch worktree of /repo at the pinned commit: git apply patch.diff; pytest (190 passed); demo.py non-zero; git checkout; demo.py zero"}
json.dump(m,open("/verif/seeded/$ID-$NAME/meta.json","w"),indent=1)
PY
  echo "  filed under /verif/seeded/$ID-$NAME"
else echo "  NOT CONFIRMED"; fi
