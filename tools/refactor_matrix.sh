#!/bin/bash
# ONLY="C05 C10" restricts the run to these checks.
# Runs the relevant quick checks against every behaviour-preserving refactoring under /verif/refactors (false-alarm test).
cd /verif
declare -A REL
REL[rf1]="C01 C02 C05 C06 C07 C08 C09 C10 C11 C12 C13 C17 C18"
REL[rf2]="C01 C04 C05 C06 C07 C08 C11 C17 C18"
REL[rf3]="C01 C02 C03 C05 C09 C14 C15 C16 C20"
REL[rf4]="C04 C09 C11 C12 C14 C17 C18"
REL[rf5]="C09 C12 C14 C16 C17 C18"
REL[rf6]="C09 C12 C13 C14 C18"
REL[rf7]="C03 C04 C14 C20"
REL[rf8]="C18 C19 C20"
for d in refactors/*/; do
  n=$(basename $d); area=${n%-*}
  cd /repo; git apply /verif/$d/patch.diff 2>/dev/null || { echo "$n: PATCH DOES NOT APPLY"; cd /verif; continue; }
  cd /verif
  res=""
  for ID in ${REL[$area]}; do
    if [ -n "$ONLY" ] && ! echo " $ONLY " | grep -q " $ID "; then continue; fi
    out=$(./check $ID --tier quick 2>&1 | grep -v WARN | grep -v "^KNOWN")
    code=$(echo "$out" | grep -o "exit=[0-9]" | tail -1)
    if [ "$code" != "exit=0" ]; then res="$res ALARM:$ID($code)"; echo "$out" | grep -E "^VIOL|key=|HARNESS|INCONCL" | cut -c1-400 | head -8 | sed "s/^/    [$n $ID] /"; fi
  done
  cd /repo && git checkout -- . ; cd /verif
  echo "$n: ${res:- no alarm} (checks: ${REL[$area]})"
done
