#!/bin/bash
# Runs every seeded change against the quick check of its property, prints a detection matrix and records the result in each meta.json.
cd /verif
for d in seeded/*/; do
  n=$(basename $d); id=${n%-*}
  [ -f $d/patch.diff ] || continue
  r=$(LINES_MAX=400 tools/try_seed.sh /verif/$d/patch.diff $id 2>&1)
  if echo "$r" | grep -q "PATCH DOES NOT APPLY"; then res="patch-does-not-apply"; else
    v=$(echo "$r" | grep -c "^VIOLATION")
    e=$(echo "$r" | grep -o "exit=[0-9]" | tail -1)
    if [ "$v" -gt 0 ]; then res="caught ($v violation keys, $e)"; else res="not-caught ($e)"; fi
  fi
  echo "$n: $res"
  /venv/bin/python - "$d/meta.json" "$res" <<'PY'
import json, sys
p, res = sys.argv[1], sys.argv[2]
m = json.load(open(p)); m["quick_check_of_its_property_on_the_repaired_tree"] = res
json.dump(m, open(p, "w"), indent=1)
PY
done
