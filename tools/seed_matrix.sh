#!/bin/bash
# Runs every seeded change against the check of its property (quick tier) and prints a detection matrix.
cd /verif
for d in seeded/*/; do
  n=$(basename $d); id=${n%-*}
  [ -f $d/patch.diff ] || continue
  r=$(tools/try_seed.sh /verif/$d/patch.diff $id 2>&1)
  if echo "$r" | grep -q "PATCH DOES NOT APPLY"; then echo "$n: patch does not apply to the repaired tree"; continue; fi
  v=$(echo "$r" | grep -c "^VIOLATION")
  e=$(echo "$r" | grep -o "exit=[0-9]" | tail -1)
  echo "$n: violations_reported=$v $e"
done
