#!/bin/bash
# usage: try_refactor.sh <patch.diff>  -- applies a behaviour-preserving refactoring to /repo, runs ALL quick checks, reverts.
P="$1"
cd /repo || exit 9
if [ -n "$(git status --porcelain --untracked-files=no)" ]; then echo "repo dirty"; exit 9; fi
git apply "$P" 2>/dev/null || { echo "PATCH DOES NOT APPLY"; exit 8; }
for ID in C01 C02 C03 C04 C05 C06 C07 C08 C09 C10 C11 C12 C13 C14 C15 C16 C17 C18 C19 C20; do
  out=$(cd /verif && ./check $ID --tier quick 2>&1 | grep -v WARN | grep -v "^KNOWN")
  code=$(echo "$out" | grep -o "exit=[0-9]" | tail -1)
  if [ "$code" != "exit=0" ]; then echo "ALARM $ID $code"; echo "$out" | grep -E "^VIOL|key=|HARNESS|INCONCL" | cut -c1-300 | head -6; else echo "ok $ID"; fi
done
cd /repo && git checkout -- . && git status --porcelain --untracked-files=no | head -3
