#!/bin/bash
# usage: try_seed.sh <patch.diff> <PROP> [<PROP>...]  -- applies a seeded change to /repo, runs quick checks, reverts.
P="$1"; shift
cd /repo || exit 9
if [ -n "$(git status --porcelain --untracked-files=no)" ]; then echo "repo dirty"; exit 9; fi
git apply "$P" 2>/dev/null || git apply -3 "$P" 2>/dev/null || patch -p1 -s -F3 < "$P" || { echo "PATCH DOES NOT APPLY"; git checkout -- .; exit 8; }
git reset -q 2>/dev/null
for ID in "$@"; do
  ( cd /verif && ./check "$ID" --tier "${TIER:-quick}" 2>&1 | grep -v "WARN" | grep -E "^VIOLATION|^KNOWN|^INCONCLUSIVE|^HARNESS|^\[C" | cut -c1-260 | head -${LINES_MAX:-6} )
  echo "exit($ID)=${PIPESTATUS[0]}"
done
cd /repo && git checkout -- . && git status --porcelain --untracked-files=no | head -3
