"""Sub-space enumeration, instance construction, parallel runner, violation
confirmation/replay, known findings, evidence."""
from __future__ import annotations

import hashlib
import importlib
import itertools
import json
import multiprocessing as mp
import os
import sys
import time
import traceback

from . import engine as E
from . import models
from .spec import Desc, Spec

ROOT = os.path.dirname(os.path.dirname(os.path.abspath(__file__)))
REPO = "/repo"


# --------------------------------------------------------------------------
# shapes and machine structures
# --------------------------------------------------------------------------
def compositions(total, max_parts):
    """All ordered job-length vectors with sum == total and <= max_parts parts."""
    out = []

    def rec(prefix, left):
        if left == 0:
            out.append(tuple(prefix))
            return
        if len(prefix) == max_parts:
            return
        for n in range(1, left + 1):
            rec(prefix + [n], left - n)

    rec([], total)
    return out


def shapes(max_jobs, max_ops, min_ops=1, ordered=True):
    res = []
    for t in range(min_ops, max_ops + 1):
        for c in compositions(t, max_jobs):
            if ordered or list(c) == sorted(c, reverse=True):
                res.append(c)
    return res


def machine_sets(M, flexible):
    if not flexible:
        return [[m] for m in range(M)]
    out = []
    for r in range(1, M + 1):
        for c in itertools.combinations(range(M), r):
            out.append(list(c))
    return out


def machine_structures(n_ops, M, flexible=False, canonical=False, require_all=False,
                       only_flexible=False):
    """Every assignment of an eligible-machine list to each operation.
    canonical: non-flexible assignments up to renaming of machine ids."""
    if canonical and not flexible:
        out = []

        def rec(prefix, mx):
            if len(prefix) == n_ops:
                out.append([[v] for v in prefix])
                return
            for v in range(min(mx + 1, M - 1) + 1):
                rec(prefix + [v], max(mx, v))

        rec([], -1)
        return out
    sets = machine_sets(M, flexible)
    out = []
    for combo in itertools.product(sets, repeat=n_ops):
        used = set(itertools.chain(*combo))
        if require_all and used != set(range(M)):
            continue
        # machine ids must be dense enough to make num_machines well defined:
        # (max id + 1) machines exist; machines without operations are allowed
        if only_flexible and not any(len(c) > 1 for c in combo):
            continue
        out.append([list(c) for c in combo])
    return out


# --------------------------------------------------------------------------
# instance construction (same code in symbolic and concrete mode)
# --------------------------------------------------------------------------
CTX = {}   # the sub-space the harness is currently running for ('share', 'history' are read by build_instance / choose_dispatch)


def call_harness(mod, e, sp):
    CTX.clear()
    CTX.update(sp)
    return mod.harness(e, sp)


def build_instance(eng, shape, machines, dmin=0, prefix="d", name="JobShopInstance", share=None):
    """share[k] = index of the duration variable of operation k (operations with the same index share one symbolic
    duration: tie-rich wide instances with few paths); default: one variable per operation."""
    from job_shop_lib import JobShopInstance, Operation

    if share is None and shape == CTX.get("shape"):
        share = CTX.get("share")
    durs = []
    jobs = []
    k = 0
    shared = {}
    for n in shape:
        job = []
        for _ in range(n):
            if share is None:
                d = eng.fresh_int(f"{prefix}{k}", dmin)
            else:
                if share[k] not in shared:
                    shared[share[k]] = eng.fresh_int(f"{prefix}s{share[k]}", dmin)
                d = shared[share[k]]
            durs.append(d)
            ms = machines[k]
            job.append(Operation(ms[0] if len(ms) == 1 else list(ms), d))
            k += 1
        jobs.append(job)
    inst = JobShopInstance(jobs, name=name)
    desc = Desc(shape, machines, durs)
    return inst, desc


def op_by_id(inst, op_id):
    for job in inst.jobs:
        for op in job:
            if op.operation_id == op_id:
                return op
    raise KeyError(op_id)


def lib_lists(schedule):
    """Read (op_id, start, machine attr) triples out of a library Schedule."""
    return [[(s.operation.operation_id, s.start_time, s.machine_id) for s in lst]
            for lst in schedule.schedule]


def choose_dispatch(eng, desc: Desc, spec: Spec, candidates=None):
    """Pick a ready operation (by op id) and one of its eligible machines."""
    ready = spec.ready_ops() if candidates is None else candidates
    policy = CTX.get("history")
    if policy:
        # wide sub-spaces follow a few fixed histories instead of every interleaving
        if policy == "jobmajor":
            op = ready[0]
        elif policy == "reverse":
            op = ready[-1]
        elif policy == "longfirst":
            long_ = [o for o in ready if len(desc.jobs[desc.job_of[o]]) > 1]
            op = (long_ or ready)[-1]
        else:   # roundrobin: the next job after the one dispatched last
            last = desc.job_of[spec.history[-1][0]] if spec.history else -1
            later = [o for o in ready if desc.job_of[o] > last]
            op = (later or ready)[0]
        return op, desc.machines[op][0]
    op = ready[eng.choice(len(ready), "op")]
    ms = desc.machines[op]
    m = ms[eng.choice(len(ms), "machine")] if len(ms) > 1 else ms[0]
    return op, m


# --------------------------------------------------------------------------
# function coverage (which repo functions ran under the engine)
# --------------------------------------------------------------------------
class FuncCoverage:
    def __init__(self):
        self.seen = set()
        self.tool = None

    def start(self):
        mon = getattr(sys, "monitoring", None)
        if mon is None:
            return
        for tid in (3, 4, 2):
            try:
                mon.use_tool_id(tid, "verif-funcs")
                self.tool = tid
                break
            except ValueError:
                continue
        if self.tool is None:
            return

        def cb(code, offset):
            fn = code.co_filename
            if fn.startswith(REPO + "/job_shop_lib"):
                if code.co_name != "<module>":
                    self.seen.add(fn[len(REPO) + 1:] + ":" + code.co_qualname)
            return mon.DISABLE

        mon.register_callback(self.tool, mon.events.PY_START, cb)
        mon.set_events(self.tool, mon.events.PY_START)
        mon.restart_events()

    def stop(self):
        mon = getattr(sys, "monitoring", None)
        if mon is None or self.tool is None:
            return
        mon.set_events(self.tool, 0)
        mon.register_callback(self.tool, mon.events.PY_START, None)
        mon.free_tool_id(self.tool)
        self.tool = None


# --------------------------------------------------------------------------
# worker
# --------------------------------------------------------------------------
MAX_CONFIRM_PER_KEY = 3


def _raised_in_library(ex):
    tb = ex.__traceback__
    last = None
    while tb is not None:
        last = tb
        tb = tb.tb_next
    return last is not None and last.tb_frame.f_code.co_filename.startswith(REPO + "/")


def _unexpected_key(mod, ex):
    return f"{mod.ID}/unexpected-library-exception/{type(ex).__name__}"


def _concrete_run(mod, sp, values, choices):
    ce = E.Engine("conc", values=values, choices=choices)
    with models.suspended():
        try:
            obs = ce.run_concrete(lambda e: call_harness(mod, e, sp))
            err = None
        except E.EngineFault:
            raise
        except Exception as ex:  # unexpected exception in concrete run
            obs = ce.obs
            err = f"{type(ex).__name__}: {ex}"
            if _raised_in_library(ex):
                ce.violations.append(E.Violation(_unexpected_key(mod, ex), err[:300], dict(values), list(ce.choice_log), True))
                err = None
    return ce, obs, err


def concrete_grid(mod, sp, eng, deadline):
    """Every assignment of {lo, lo+1, lo+2} (within bounds) to the integer inputs x every choice combination, concretely."""
    names = [n for n, (lo, hi) in eng.var_bounds.items() if not n.startswith(("clock", "cp"))]
    if not names or len(names) > 8:
        return []
    width = 3 if len(names) <= 5 else 2
    grids = []
    for n in names:
        lo, hi = eng.var_bounds[n]
        lo = 0 if lo is None else lo
        vals = [v for v in range(lo, lo + width) if hi is None or v <= hi]
        grids.append(vals or [lo])
    out, seen = [], set()
    big = []
    if len(names) <= 4:
        # a second grid with values around 2**53 (where float64 stops representing every integer)
        for n in names:
            lo, hi = eng.var_bounds[n]
            vals = [v for v in ((lo or 0) + 1, 2 ** 53, 2 ** 53 + 1) if hi is None or v <= hi]
            big.append(vals)
    for combo in itertools.chain(itertools.product(*grids), itertools.product(*big) if big else []):
        if time.time() > deadline:
            break
        ce = E.Engine("conc", values=dict(zip(names, combo)), choices=None)
        with models.suspended():
            try:
                ce.explore_concrete(lambda e: call_harness(mod, e, sp), deadline=deadline)
            except Exception:
                continue
        for v in ce.violations:
            if v.key not in seen:
                seen.add(v.key)
                out.append(dict(v.as_dict(), confirmed=True, degraded="found by bounded concrete enumeration after an unsupported proxy operation"))
    return out


def run_subspace(args):
    prop_name, sp, deadline = args
    t0 = time.time()
    res = dict(sp=sp, stats=None, violations=[], complete=True, fault=None, funcs=[],
               samples=[], wall=0.0)
    try:
        mod = importlib.import_module(f"vf.props.{prop_name}")
        models.lib_modules()
        cov = FuncCoverage()
        cov.start()
        extra = mod.extra_models(sp) if hasattr(mod, "extra_models") else []
        eng = E.Engine()
        if hasattr(mod, "configure_engine"):
            mod.configure_engine(eng, sp)

        def validate(values, choices):
            ce, obs, err = _concrete_run(mod, sp, values, choices)
            if err is not None:
                raise E.EngineFault(f"concrete re-run raised {err}; values={values} choices={choices}")
            return obs

        big_found = []

        def big_validate(values, choices, sym_obs, label):
            # a solver-chosen LARGE model of the path condition, run on the un-instrumented library
            ce, obs, err = _concrete_run(mod, sp, values, choices)
            for v in ce.violations:
                if not any(b["key"] == v.key for b in big_found):
                    big_found.append(dict(v.as_dict(), confirmed=True, big_model=label))
            if ce.violations:
                return
            if err is not None:
                raise E.EngineFault(f"concrete re-run with a large model raised {err}; values={values} choices={choices}")
            conc_obs = [(l, E._norm(v)) for l, v in (obs or [])]
            if conc_obs != sym_obs:
                raise E.EngineFault(f"symbolic/concrete divergence under a large model ({label}): values={values} choices={choices} "
                                    f"sym={str(sym_obs)[:300]} conc={str(conc_obs)[:300]}")

        if getattr(mod, "big_models", lambda sp_: False)(sp):
            eng.big_validate = big_validate
            eng.big_every = getattr(mod, "BIG_EVERY", 8)

        degraded = []

        def harness(e):
            try:
                call_harness(mod, e, sp)
            except E.Unsupported as u:
                e.stats["degraded_paths"] += 1
                vals = e.model_values()
                degraded.append((vals, list(e.choice_log), str(u)))
                raise E.PathAbort()
            except E.EngineFault:
                raise
            except Exception as ex:
                # an exception escaping from library code that the harness did not anticipate: a candidate violation
                # (confirmed only if the concrete re-run raises it too); exceptions raised in the harness itself stay faults
                if not _raised_in_library(ex):
                    raise
                e.fail(_unexpected_key(mod, ex), f"{type(ex).__name__}: {ex}"[:300])
                raise E.PathAbort()

        def on_end(e):
            if len(res["samples"]) < 2:
                res["samples"].append(dict(subspace=sp, choices=list(e.choice_log),
                                           model=e.model_values(),
                                           path_condition=[a.sexpr()[:300] for a in list(e.solver.assertions())[:12]]))

        def on_end_all(e):
            on_end(e)
            if "on_end" in e.user:
                e.user["on_end"](e)

        eng.on_path_end = on_end_all
        with models.installed(extra=extra):
            ok = eng.explore(harness, validate if getattr(mod, "VALIDATE", True) else None,
                             deadline=deadline)
            res["complete"] = bool(ok)
            if ok and hasattr(mod, "finalize"):
                mod.finalize(eng, sp)
            # degraded paths: decide them on a concrete representative
            for vals, choices, why in degraded[:50]:
                ce, obs, err = _concrete_run(mod, sp, vals, choices)
                for v in ce.violations:
                    res["violations"].append(dict(v.as_dict(), confirmed=True, degraded=why))
            # fallback for code the proxies cannot follow: bounded exhaustive CONCRETE enumeration (small value grid x all choices);
            # a violation found this way is real (exit 1); without one the run stays inconclusive (exit 2)
            if degraded and not res["violations"]:
                found = concrete_grid(mod, sp, eng, time.time() + 60)
                res["violations"].extend(found)
                eng.stats["concrete_grid_runs"] = eng.stats.get("concrete_grid_runs", 0) + 1
            res["violations"].extend(big_found)
            # confirm candidate violations by concrete replay on the unmodified library
            per_key = {}
            for v in eng.violations:
                per_key.setdefault(v.key, []).append(v)
            for key, vs in per_key.items():
                confirmed = None
                tried = 0
                for v in vs[:MAX_CONFIRM_PER_KEY]:
                    tried += 1
                    ce, obs, err = _concrete_run(mod, sp, v.values, v.choices)
                    if any(cv.key == key for cv in ce.violations):
                        confirmed = v
                        break
                d = (confirmed or vs[0]).as_dict()
                d["confirmed"] = confirmed is not None
                d["count"] = len(vs)
                res["violations"].append(d)
        cov.stop()
        res["funcs"] = sorted(cov.seen)
        res["stats"] = eng.stats
    except E.EngineFault as ex:
        res["fault"] = f"EngineFault: {ex}"
    except BaseException as ex:  # noqa
        res["fault"] = "".join(traceback.format_exception(type(ex), ex, ex.__traceback__))[-3000:]
    finally:
        models.uninstall()
    res["wall"] = time.time() - t0
    return res


# --------------------------------------------------------------------------
# known findings
# --------------------------------------------------------------------------
def load_known():
    p = os.path.join(ROOT, "known_findings.json")
    if not os.path.exists(p):
        return []
    with open(p) as f:
        return json.load(f).get("findings", [])


# --------------------------------------------------------------------------
# top-level run of one property
# --------------------------------------------------------------------------
def run_property(prop_id, tier, budget_s=None, workers=None, only=None):
    name = prop_id.lower()
    mod = importlib.import_module(f"vf.props.{name}")
    t0 = time.time()
    seed = int(os.environ.get("VERIF_SEED", "0") or 0)
    sps = mod.subspaces(tier)
    if only is not None:
        sps = [s for s in sps if only(s)]
    if budget_s is None:
        budget_s = 2 * getattr(mod, "BUDGET", {}).get(tier, 600 if tier == "quick" else 3000)  # generous: a loaded machine must not turn a pass into "inconclusive"
    deadline = t0 + budget_s
    workers = workers or min(16, os.cpu_count() or 1)
    models.lib_modules()  # import the library once, before forking the workers
    cost = getattr(mod, "cost", lambda sp: 1)
    order = sorted(range(len(sps)), key=lambda i: -cost(sps[i]))
    tasks = [(name, sps[i], deadline) for i in order]
    results = []
    xh = None
    if getattr(mod, "XHAIR_PREFIX", None):
        import threading
        from .xhair import run as xrun

        xh = {}
        th = threading.Thread(target=lambda: xh.update(xrun.run(mod.XHAIR_PREFIX)), daemon=True)
        th.start()
    if workers == 1 or len(tasks) <= 1:
        for t in tasks:
            results.append(run_subspace(t))
    else:
        ctx = mp.get_context("fork")
        with ctx.Pool(min(workers, len(tasks))) as pool:
            for r in pool.imap_unordered(run_subspace, tasks, chunksize=1):
                results.append(r)
    if xh is not None:
        th.join(timeout=180)
    return finish(mod, prop_id, tier, seed, results, time.time() - t0, xhair=xh)


def _replay_path(prop_id, key):
    h = hashlib.sha1(key.encode()).hexdigest()[:10]
    d = os.path.join(ROOT, "replay")
    os.makedirs(d, exist_ok=True)
    return os.path.join(d, f"{prop_id}-{h}.json")


def finish(mod, prop_id, tier, seed, results, wall, xhair=None):
    agg = {}
    faults = []
    incomplete = 0
    funcs = set()
    samples = []
    violations = {}
    reached = {}
    for r in results:
        if r["fault"]:
            faults.append((r["sp"], r["fault"]))
            continue
        if not r["complete"]:
            incomplete += 1
        for k, v in r["stats"].items():
            if k == "reached":
                for kk, n in v.items():
                    reached[kk] = reached.get(kk, 0) + n
            elif isinstance(v, (int, float)):
                agg[k] = agg.get(k, 0) + v
        funcs.update(r["funcs"])
        if len(samples) < 3:
            samples.extend(r["samples"][:1])
        for v in r["violations"]:
            v = dict(v, subspace=r["sp"])
            cur = violations.get(v["key"])
            if cur is None:
                violations[v["key"]] = dict(v, total=v.get("count", 1))
            else:
                cur["total"] += v.get("count", 1)
                if v["confirmed"] and not cur["confirmed"]:
                    cur.update({k: v[k] for k in ("confirmed", "values", "choices", "subspace", "detail")})
    second = {}
    if xhair is not None:
        from .xhair import run as xrun

        for name, (verdict, msg) in sorted(xhair.items()):
            second[name] = verdict
            if verdict == "counterexample":
                real = xrun.replay(name, msg)
                key = f"{prop_id}/crosshair/{name}"
                violations[key] = dict(key=key, detail=msg, values={"crosshair_kernel": name, "message": msg}, choices=[],
                                       confirmed=bool(real), subspace={"engine": "crosshair", "kernel": name}, total=1)
    known = [k for k in load_known() if k.get("property") == prop_id and k.get("status") == "known"]
    known_keys = {k["key"]: k for k in known}
    exit_code = 0
    out_lines = []
    n_viol = 0
    unconfirmed = []
    for key, v in sorted(violations.items()):
        if not v["confirmed"]:
            unconfirmed.append(key)
            continue
        path = _replay_path(prop_id, key)
        with open(path, "w") as f:
            json.dump(dict(property=prop_id, key=key, detail=v["detail"], subspace=v["subspace"],
                           values=v["values"], choices=v["choices"],
                           how=f"./check {prop_id} --replay {path}"), f, indent=1, default=str)
        if key in known_keys:
            out_lines.append(f"KNOWN-FINDING: property={prop_id} {known_keys[key]['what']} [{key}]")
        else:
            n_viol += 1
            out_lines.append(f"VIOLATION property={prop_id} replay={path}")
            out_lines.append(f"  key={key} detail={v['detail']} subspace={json.dumps(v['subspace'], default=str)} "
                             f"values={v['values']} choices={v['choices']}")
            exit_code = 1
    n_paths = int(agg.get("paths", 0))
    degraded = int(agg.get("degraded_paths", 0))
    inconclusive = bool(faults) or incomplete > 0 or bool(unconfirmed) or \
        (n_paths > 0 and degraded > 0.01 * n_paths) or n_paths == 0
    if inconclusive and exit_code == 0:
        exit_code = 2
    for sp, f in faults[:5]:
        out_lines.append(f"HARNESS-FAULT subspace={json.dumps(sp, default=str)}\n{f}")
    if incomplete:
        out_lines.append(f"INCONCLUSIVE: {incomplete} sub-space(s) not fully explored within the budget")
    for k in unconfirmed:
        v = violations[k]
        out_lines.append(f"INCONCLUSIVE: solver counterexample for '{k}' did not reproduce concretely "
                         f"(encoding suspect): values={v['values']} choices={v['choices']} subspace={v['subspace']}")
    ev = dict(
        property_id=prop_id, tier=tier, seed=seed, level="model_checking",
        coverage=dict(
            states=int(reached.get("state", agg.get("paths", 0))),
            transitions=int(reached.get("transition", agg.get("choices", 0))),
            traces_validated_against_impl=int(agg.get("validated", 0)),
            samples=samples or [dict(note="no path completed")],
            exhaustive=(not inconclusive and degraded == 0),
            paths=n_paths,
            subspaces=len(results),
            obligations=int(agg.get("obligations", 0)),
            queries=dict(sat=int(agg.get("sat", 0)), unsat=int(agg.get("unsat", 0)),
                         unknown=int(agg.get("unknown", 0))),
            obligations_proved_by_solver=int(agg.get("proved", 0)),
            obligations_trivially_true=int(agg.get("proved_trivial", 0)),
            solver_s=round(agg.get("solver_s", 0.0), 3),
            branch_points=int(agg.get("branches", 0)),
            forks=int(agg.get("forks", 0)),
            inconclusive_paths=degraded,
            concretisations=int(agg.get("concretisations", 0)),
            large_models_run_on_impl=int(agg.get("big_models", 0)),
            reached=reached,
            functions_encoded=sorted(funcs),
            bounds=getattr(mod, "bounds", lambda t: "")(tier),
            stubs=getattr(mod, "STUBS", []),
            second_engine=dict(name="crosshair-tool (symbolic execution of the same library code, per path, z3)", kernels=second)
            if second else None,
            known_findings_matched=[k for k in violations if k in known_keys and violations[k]["confirmed"]],
            explanation=("states/transitions count the symbolic dispatcher states and dispatches executed over all explored paths (a state "
                         "shared by several paths is counted once per path); paths = feasible symbolic paths, each ended with all its "
                         "obligations decided by z3 for every value of the symbolic inputs; traces_validated_against_impl = paths whose "
                         "observed values were reproduced by a concrete re-run of the un-instrumented library on a model of the path "
                         "condition; large_models_run_on_impl = additional models of path conditions in which the solver was asked for "
                         "inputs >= 2**24+1 (all / only the first / only the last input), each run concretely with all oracles (first 4 "
                         "paths of every sub-space and every 8th after); functions_encoded = job_shop_lib functions executed under the engine (sys.monitoring)"),
            engine="symx (operator-overloading symbolic execution of the imported /repo modules, z3 %s)"
                   % _z3_version(),
        ),
        assumptions=getattr(mod, "ASSUMPTIONS", []),
        wall_s=round(wall, 2),
        violations=n_viol,
    )
    if ev["coverage"]["states"] < 1:
        ev["coverage"]["states"] = max(1, n_paths)
    if ev["coverage"]["transitions"] < 1:
        ev["coverage"]["transitions"] = max(1, int(agg.get("branches", 0)))
    os.makedirs(os.path.join(ROOT, "evidence"), exist_ok=True)
    for name in (f"{prop_id}.json", f"{prop_id}.{tier}.json"):     # the latest run, and the latest run of this tier
        with open(os.path.join(ROOT, "evidence", name), "w") as f:
            json.dump(ev, f, indent=1, default=str)
    if os.environ.get("VERIF_SLOWEST"):
        for r in sorted(results, key=lambda r: -r["wall"])[:5]:
            print("SLOW", round(r["wall"], 1), (r["stats"] or {}).get("paths"), json.dumps(r["sp"], default=str)[:200])
    for l in out_lines:
        print(l)
    print(f"[{prop_id} {tier}] subspaces={len(results)} paths={n_paths} obligations={ev['coverage']['obligations']} "
          f"queries={ev['coverage']['queries']} solver_s={ev['coverage']['solver_s']} validated={ev['coverage']['traces_validated_against_impl']} "
          f"degraded={degraded} wall={wall:.1f}s exit={exit_code}")
    return exit_code


def _z3_version():
    import z3

    return z3.get_version_string()


def replay(prop_id, path):
    """Re-run a recorded counterexample concretely against /repo as it is now."""
    with open(path) as f:
        rp = json.load(f)
    if rp.get("subspace", {}).get("engine") == "crosshair":
        from .xhair import run as xrun

        real = xrun.replay(rp["values"]["crosshair_kernel"], rp["values"]["message"])
        print(json.dumps(dict(key=rp["key"], reproduced=bool(real)), indent=1))
        if real:
            print(f"VIOLATION property={prop_id} replay={path}")
            return 1
        return 0
    mod = importlib.import_module(f"vf.props.{prop_id.lower()}")
    sp = rp["subspace"]
    ce = E.Engine("conc", values=rp["values"], choices=rp["choices"])
    err = None
    try:
        ce.run_concrete(lambda e: call_harness(mod, e, sp))
    except Exception as ex:
        err = f"{type(ex).__name__}: {ex}"
    hit = [v for v in ce.violations if v.key == rp["key"]]
    print(json.dumps(dict(key=rp["key"], reproduced=bool(hit), error=err,
                          violations=[v.as_dict() for v in ce.violations][:5]), indent=1, default=str))
    if hit:
        print(f"VIOLATION property={prop_id} replay={path}")
        return 1
    return 0


# --------------------------------------------------------------------------
# structural snapshots (C09, C12, C14)
# --------------------------------------------------------------------------
def snap_value(v):
    """Nested python structure with SInt/num leaves."""
    import numpy as np

    if isinstance(v, np.ndarray):
        return ("arr", list(v.shape), [snap_value(x) for x in v.ravel().tolist()])
    if isinstance(v, (list, tuple)):
        return [snap_value(x) for x in v]
    if isinstance(v, dict):
        return {str(k): snap_value(x) for k, x in v.items()}
    if hasattr(v, "operation_id") and hasattr(v, "machines"):
        return ("op", v.operation_id)
    if hasattr(v, "operation") and hasattr(v, "start_time"):
        return ("sop", v.operation.operation_id, v.start_time, v.machine_id)
    if isinstance(v, (np.integer,)):
        return int(v)
    if isinstance(v, (np.floating,)):
        return float(v)
    if isinstance(v, np.bool_):
        return bool(v)
    return v


def snap_dispatcher(disp, queries=True):
    s = dict(
        lists=[[(so.operation.operation_id, so.start_time, so.machine_id) for so in l] for l in disp.schedule.schedule],
        mnat=list(disp.machine_next_available_time),
        jnat=list(disp.job_next_available_time),
        jnoi=list(disp.job_next_operation_index),
        nsub=len(disp.subscribers),
        metadata=dict(disp.schedule.metadata),
    )
    if queries:
        s["q"] = dict(
            scheduled=sorted(o.operation_id for o in disp.scheduled_operations()),
            unscheduled=sorted(o.operation_id for o in disp.unscheduled_operations()),
            ready=[o.operation_id for o in disp.raw_ready_operations()],
            available=[o.operation_id for o in disp.available_operations()],
            now=disp.current_time(),
            makespan=disp.schedule.makespan(),
            complete=disp.schedule.is_complete(),
        )
    return s


def snap_observer(o):
    """Public state of a built-in observer."""
    name = type(o).__name__
    out = {"type": name}
    if hasattr(o, "history"):
        out["history"] = snap_value(list(o.history))
    if hasattr(o, "unscheduled_operations_per_job"):
        out["unscheduled"] = [[op.operation_id for op in dq] for dq in o.unscheduled_operations_per_job]
    if hasattr(o, "rewards"):
        out["rewards"] = list(o.rewards)
        if hasattr(o, "current_makespan"):
            out["current_makespan"] = o.current_makespan
    if hasattr(o, "features"):
        out["features"] = {ft.value: snap_value(arr) for ft, arr in o.features.items()}
        if hasattr(o, "column_names"):
            out["column_names"] = {k.value: list(v) for k, v in o.column_names.items()}
    if hasattr(o, "job_shop_graph"):
        out["graph"] = snap_graph(o.job_shop_graph)
    if hasattr(o, "log"):
        out["log"] = snap_value(list(o.log))
    return out


def snap_graph(g):
    return dict(
        nodes=sorted(g.graph.nodes()),
        edges=sorted((u, v, str(d.get("type"))) for u, v, d in g.graph.edges(data=True)),
        removed=list(g.removed_nodes),
    )


def snap_equal(a, b, path=""):
    """Returns (concrete_difference or None, list of symbolic equalities)."""
    conds = []

    def rec(x, y, p):
        if isinstance(x, (E.SInt, E.SBool)) or isinstance(y, (E.SInt, E.SBool)):
            if x is y:
                return None
            if isinstance(x, (list, tuple, dict, str)) or isinstance(y, (list, tuple, dict, str)):
                return f"{p}: {x!r} vs {y!r}"
            conds.append((E.veq(x, y), p))
            return None
        if isinstance(x, dict) and isinstance(y, dict):
            if set(x) != set(y):
                return f"{p}: keys {sorted(x)} vs {sorted(y)}"
            for k in x:
                r = rec(x[k], y[k], f"{p}/{k}")
                if r:
                    return r
            return None
        if isinstance(x, (list, tuple)) and isinstance(y, (list, tuple)):
            if len(x) != len(y):
                return f"{p}: length {len(x)} vs {len(y)}: {x!r} vs {y!r}"
            for i, (u, v) in enumerate(zip(x, y)):
                r = rec(u, v, f"{p}[{i}]")
                if r:
                    return r
            return None
        if isinstance(x, float) and isinstance(y, float) and x != x and y != y:
            return None
        if isinstance(x, (int, float)) and isinstance(y, (int, float)) and not isinstance(x, bool) and not isinstance(y, bool):
            return None if x == y else f"{p}: {x!r} vs {y!r}"
        if x != y:
            return f"{p}: {x!r} vs {y!r}"
        return None

    diff = rec(a, b, path)
    return diff, conds


def prove_snap_equal(eng, a, b, key, detail=""):
    diff, conds = snap_equal(a, b)
    if diff is not None:
        eng.fail(key, f"{detail} {diff}"[:400])
        return False
    if conds:
        return eng.prove(E.vand([c for c, _ in conds]), key, detail)
    eng.prove(True, key)
    return True
