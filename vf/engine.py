"""symx: symbolic execution of the real job_shop_lib code by proxy values.

SInt/SBool wrap z3 terms; SBool.__bool__ is the only fork point; the engine
explores all feasible paths depth-first by re-execution.  The same harness can
be re-run in *concrete* mode (plain ints taken from a z3 model, scripted
choices) against the un-instrumented library, which is how every path is
validated and how every counterexample is replayed before it is reported.
"""
from __future__ import annotations

import builtins
import math
import time

import z3

_real_int = builtins.int
_real_max, _real_min = builtins.max, builtins.min
_real_abs = builtins.abs
INF = float("inf")


class Unsupported(Exception):
    """A proxy operation the engine cannot model; the path is degraded."""


class PathAbort(BaseException):
    """Raised to stop a path early (e.g. infeasible assumption)."""


class EngineFault(Exception):
    """Engine self-validation failed (symbolic vs concrete disagreement)."""


# --------------------------------------------------------------------------
# values
# --------------------------------------------------------------------------
def _e(x):
    if isinstance(x, (SInt, SBool)):
        return x.e
    return x


def is_sym(x):
    return isinstance(x, (SInt, SBool))


class SBool:
    __slots__ = ("eng", "e", "_id")

    def __init__(self, eng, e):
        self.eng, self.e = eng, e
        self._id = e.get_id()

    def __bool__(self):
        return self.eng.branch(self.e, self._id)

    def __and__(self, o):
        if isinstance(o, bool):
            return self if o else False
        return SBool(self.eng, z3.And(self.e, o.e))

    __rand__ = __and__

    def __or__(self, o):
        if isinstance(o, bool):
            return True if o else self
        return SBool(self.eng, z3.Or(self.e, o.e))

    __ror__ = __or__

    def __invert__(self):
        return SBool(self.eng, z3.Not(self.e))

    def __eq__(self, o):
        if isinstance(o, bool):
            return self if o else ~self
        if isinstance(o, SBool):
            return SBool(self.eng, self.e == o.e)
        return NotImplemented

    def __hash__(self):
        raise Unsupported("hash of symbolic bool")

    def __repr__(self):
        return "SBool(" + self.e.sexpr()[:200] + ")"

    def __deepcopy__(self, memo):
        return self

    def __copy__(self):
        return self

    # ints from bools (e.g. sum of flags, features[i] = flag)
    def __int__(self):
        return 1 if self.eng.branch(self.e) else 0

    def __index__(self):
        return 1 if self.eng.branch(self.e) else 0

    def __add__(self, o):
        return SInt(self.eng, z3.If(self.e, 1, 0)) + o

    __radd__ = __add__


class SInt:
    """Symbolic number (z3 Int or Real term). Deliberately not an int subclass."""

    __slots__ = ("eng", "e", "_id")

    def __init__(self, eng, e):
        self.eng, self.e = eng, e
        self._id = e.get_id()

    # -- helpers
    @staticmethod
    def _num(o):
        return isinstance(o, (SInt, _real_int)) and not isinstance(o, bool)

    def _lift(self, o):
        """Return z3 term for o or None."""
        if isinstance(o, SInt):
            return o.e
        if isinstance(o, bool):
            return _real_int(o)
        if isinstance(o, _real_int):
            return o
        if isinstance(o, SBool):
            return z3.If(o.e, 1, 0)
        if isinstance(o, float):
            if o != o or o in (INF, -INF):
                return None
            if o == _real_int(o):
                return _real_int(o)
            return z3.RealVal(repr(o))
        try:
            import numpy as _np

            if isinstance(o, _np.integer):
                return _real_int(o)
            if isinstance(o, _np.bool_):
                return _real_int(bool(o))
            if isinstance(o, _np.floating):
                return self._lift(float(o))
        except ImportError:  # pragma: no cover
            pass
        return None

    def _bin(self, o, f, special=None, opc=None):
        to = type(o)
        if to is SInt:
            key = (opc, self._id, o._id, 1)
        elif to is _real_int:
            key = (opc, self._id, o, 0)
        else:
            key = None
        if key is not None and opc is not None:
            r = self.eng.tcache.get(key)
            if r is not None:
                return r
        if isinstance(o, float) and (o != o or o in (INF, -INF)):
            if special is None:
                raise Unsupported("arithmetic with inf/nan")
            return special(o)
        t = self._lift(o)
        if t is None:
            return NotImplemented
        r = SInt(self.eng, f(self.e, t))
        if key is not None and opc is not None:
            self.eng.tcache[key] = r
        return r

    # -- arithmetic
    def __add__(self, o):
        return self._bin(o, lambda a, b: a + b, lambda f: f, opc=1)

    __radd__ = __add__

    def __sub__(self, o):
        return self._bin(o, lambda a, b: a - b, lambda f: -f, opc=2)

    def __rsub__(self, o):
        return self._bin(o, lambda a, b: b - a, lambda f: f, opc=3)

    def __mul__(self, o):
        return self._bin(o, lambda a, b: a * b, opc=4)

    __rmul__ = __mul__

    def __neg__(self):
        return SInt(self.eng, -self.e)

    def __pos__(self):
        return self

    def __abs__(self):
        return SInt(self.eng, z3.If(self.e >= 0, self.e, -self.e))

    def __floordiv__(self, o):
        if isinstance(o, _real_int) and o > 0 and self.e.is_int():
            return SInt(self.eng, self.e / o)
        raise Unsupported("floordiv")

    def __mod__(self, o):
        if isinstance(o, _real_int) and o > 0 and self.e.is_int():
            return SInt(self.eng, self.e % o)
        raise Unsupported("mod")

    def __truediv__(self, o):
        t = self._lift(o)
        if t is None:
            if isinstance(o, float) and o in (INF, -INF):
                return 0.0
            return NotImplemented
        if isinstance(t, _real_int):
            if t == 0:
                raise ZeroDivisionError("division by zero")
        else:
            if self.eng.branch(t == 0):
                raise ZeroDivisionError("division by zero")
        return SInt(self.eng, z3.ToReal(self.e) / t if self.e.is_int() else self.e / t)

    def __rtruediv__(self, o):
        t = self._lift(o)
        if t is None:
            return NotImplemented
        if self.eng.branch(self.e == 0):
            raise ZeroDivisionError("division by zero")
        num = z3.RealVal(t) if isinstance(t, _real_int) else t
        return SInt(self.eng, num / self.e)

    # -- comparisons
    def _cmp(self, o, f, inf_res, ninf_res, nan_res=False, opc=None):
        to = type(o)
        if to is SInt:
            key = (opc, self._id, o._id, 1)
        elif to is _real_int:
            key = (opc, self._id, o, 0)
        else:
            key = None
        if key is not None:
            r = self.eng.tcache.get(key)
            if r is not None:
                return r
        if isinstance(o, float):
            if o != o:
                return nan_res
            if o == INF:
                return inf_res
            if o == -INF:
                return ninf_res
        t = self._lift(o)
        if t is None:
            return NotImplemented
        r = SBool(self.eng, f(self.e, t))
        if key is not None:
            self.eng.tcache[key] = r
        return r

    def __lt__(self, o):
        return self._cmp(o, lambda a, b: a < b, True, False, opc=10)

    def __le__(self, o):
        return self._cmp(o, lambda a, b: a <= b, True, False, opc=11)

    def __gt__(self, o):
        return self._cmp(o, lambda a, b: a > b, False, True, opc=12)

    def __ge__(self, o):
        return self._cmp(o, lambda a, b: a >= b, False, True, opc=13)

    def __eq__(self, o):
        r = self._cmp(o, lambda a, b: a == b, False, False, opc=14)
        return False if r is NotImplemented else r

    def __ne__(self, o):
        r = self._cmp(o, lambda a, b: a != b, True, True, True, opc=15)
        return True if r is NotImplemented else r

    def __bool__(self):
        return self.eng.branch(self.e != 0)

    # -- concretising operations
    def __hash__(self):
        raise Unsupported("hash of symbolic int")

    def __index__(self):
        return self.eng.concretize(self)

    def __int__(self):
        raise Unsupported("int() of symbolic int")

    def __float__(self):
        raise Unsupported("float() of symbolic int")

    def __round__(self, n=None):
        if self.e.is_int():
            return self
        raise Unsupported("round of symbolic real")

    def __repr__(self):
        t = self.e.sexpr()      # C printer; the python pretty printer is ~100x slower
        return "<" + (t if len(t) < 200 else t[:200] + "...") + ">"

    def __format__(self, spec):
        return self.eng.format_hook(self, spec)

    def __deepcopy__(self, memo):
        return self

    def __copy__(self):
        return self

    def __reduce__(self):
        raise Unsupported("pickle of symbolic int")


# --------------------------------------------------------------------------
# models of builtins (injected into library module namespaces)
# --------------------------------------------------------------------------
class _IntMeta(type):
    def __instancecheck__(cls, obj):
        return isinstance(obj, (_real_int, SInt))

    def __call__(cls, *a, **k):
        if a and isinstance(a[0], SInt):
            if not a[0].e.is_int():
                raise Unsupported("int() of symbolic real")
            return a[0]
        if a and isinstance(a[0], SBool):
            return SInt(a[0].eng, z3.If(a[0].e, 1, 0))
        return _real_int(*a, **k)


class sym_int(metaclass=_IntMeta):
    """Stand-in for builtins.int inside library modules."""


def _pick(better, a, b):
    """Better of a and b (a wins ties), without forking."""
    fa, fb = isinstance(a, float), isinstance(b, float)
    if fa or fb:
        if fa and fb:
            return a if better(a, b) else b
        f, s = (a, b) if fa else (b, a)
        if f != f:
            raise Unsupported("nan in max/min")
        if f not in (INF, -INF):
            raise Unsupported("finite float in max/min with symbolic")
        if not is_sym(s):
            return a if better(a, b) else b
        f_better = better(1 if f == INF else -1, 0)
        return f if f_better else s
    if isinstance(a, SInt) or isinstance(b, SInt):
        s_ = a if isinstance(a, SInt) else b
        eng = s_.eng
        ta, tb = type(a), type(b)
        key = None
        if (ta is SInt or ta is _real_int) and (tb is SInt or tb is _real_int):
            key = (better, a._id if ta is SInt else a, b._id if tb is SInt else b,
                   (ta is SInt) + 2 * (tb is SInt))
            r = eng.tcache.get(key)
            if r is not None:
                return r
        ea, eb = s_._lift(a), s_._lift(b)
        if ea is None or eb is None:
            raise Unsupported("max/min of non-number")
        r = SInt(eng, z3.If(better(ea, eb), ea, eb))
        if key is not None:
            eng.tcache[key] = r
        return r
    return a if better(a, b) else b


def _mk(real, better):
    def f(*args, **kw):
        if "key" in kw and kw["key"] is not None:
            return real(*args, **kw)
        default = kw.get("default", _mk)
        if len(args) == 1:
            args = tuple(args[0])
        if not args:
            if default is not _mk:
                return default
            return real(args)
        if not any(isinstance(a, SInt) for a in args):
            return real(args)
        acc = args[0]
        for x in args[1:]:
            acc = _pick(better, acc, x)
        return acc

    return f


def _ge(a, b):
    return a >= b


def _le(a, b):
    return a <= b


sym_max = _mk(_real_max, _ge)
sym_min = _mk(_real_min, _le)


def sym_abs(x):
    return abs(x)


def sym_sum(it, start=0):
    acc = start
    for x in it:
        acc = acc + x
    return acc


# --------------------------------------------------------------------------
# fork-free value algebra for oracles (works for SInt/SBool and plain values)
# --------------------------------------------------------------------------
def vmax(*xs):
    return sym_max(*xs)


def vmin(*xs):
    return sym_min(*xs)


def vnot(a):
    if isinstance(a, SBool):
        return SBool(a.eng, z3.Not(a.e))
    return not a


def vand(*xs):
    if len(xs) == 1 and not isinstance(xs[0], (SBool, bool)):
        xs = tuple(xs[0])
    syms = []
    eng = None
    for x in xs:
        if isinstance(x, SBool):
            syms.append(x.e)
            eng = x.eng
        elif not x:
            return False
    if not syms:
        return True
    return SBool(eng, z3.And(syms) if len(syms) > 1 else syms[0])


def vor(*xs):
    if len(xs) == 1 and not isinstance(xs[0], (SBool, bool)):
        xs = tuple(xs[0])
    syms = []
    eng = None
    for x in xs:
        if isinstance(x, SBool):
            syms.append(x.e)
            eng = x.eng
        elif x:
            return True
    if not syms:
        return False
    return SBool(eng, z3.Or(syms) if len(syms) > 1 else syms[0])


def vimp(a, b):
    return vor(vnot(a), b)


def viff(a, b):
    if isinstance(a, SBool) and isinstance(b, SBool):
        return SBool(a.eng, a.e == b.e)
    if isinstance(a, SBool):
        return a if b else vnot(a)
    if isinstance(b, SBool):
        return b if a else vnot(b)
    return bool(a) == bool(b)


def vite(c, a, b):
    if isinstance(c, SBool):
        eng = c.eng
        if isinstance(a, (SBool, bool)) and isinstance(b, (SBool, bool)):
            ea = a.e if isinstance(a, SBool) else z3.BoolVal(a)
            eb = b.e if isinstance(b, SBool) else z3.BoolVal(b)
            return SBool(eng, z3.If(c.e, ea, eb))
        ea = a.e if isinstance(a, SInt) else a
        eb = b.e if isinstance(b, SInt) else b
        if isinstance(ea, float) or isinstance(eb, float):
            raise Unsupported("vite with float")
        return SInt(eng, z3.If(c.e, ea, eb))
    return a if c else b


def veq(a, b):
    """Fork-free equality of numbers (or bools)."""
    if isinstance(a, (SBool,)) or isinstance(b, (SBool,)):
        return viff(a, b)
    if isinstance(a, bool) and isinstance(b, bool):
        return a == b
    r = a == b
    return r


def vsum(xs):
    return sym_sum(xs, 0)


def vcount(bools):
    """Number of true bools, fork-free."""
    acc = 0
    for b in bools:
        if isinstance(b, SBool):
            acc = acc + SInt(b.eng, z3.If(b.e, 1, 0))
        elif b:
            acc = acc + 1
    return acc


# --------------------------------------------------------------------------
# engine
# --------------------------------------------------------------------------
class Violation:
    __slots__ = ("key", "detail", "values", "choices", "concrete")

    def __init__(self, key, detail, values, choices, concrete=False):
        self.key, self.detail, self.values, self.choices = key, detail, values, choices
        self.concrete = concrete

    def as_dict(self):
        return {"key": self.key, "detail": self.detail, "values": self.values,
                "choices": self.choices}


class Engine:
    """mode 'sym': explore all paths; mode 'conc': one scripted concrete run."""

    def __init__(self, mode="sym", values=None, choices=None, max_concretize=64,
                 timeout_ms=20000):
        self.mode = mode
        self.values = dict(values or {})
        self.script = list(choices or [])
        self.script_mode = choices is not None
        self.max_concretize = max_concretize
        self.stats = dict(paths=0, sat=0, unsat=0, unknown=0, branches=0, forks=0,
                          proved=0, proved_trivial=0, solver_s=0.0, choices=0,
                          concretisations=0, degraded_paths=0, validated=0,
                          obligations=0)
        self.violations = []          # candidate violations (sym) / confirmed (conc)
        self.obs = []                 # observations of the current path
        self.choice_log = []
        self.var_names = []
        self.format_hook = lambda v, spec: format(repr(v), "")
        self.on_path_end = None
        self.big_validate = None   # callback(values, choices, sym_obs) for solver-chosen LARGE models of the path condition
        self.big_every = 1
        self.user = {}
        self.var_bounds = {}
        if mode == "conc":
            self.trail, self.pos = [], 0
        if mode == "sym":
            self.solver = z3.Solver()
            self.solver.set("timeout", timeout_ms)
            self.trail = []
            self.pos = 0
            self.model = None
            self.vars = {}
            self.decided = {}
            self.decided_true = set()
            self._keep = []   # keeps decided terms alive so that ids are not reused
        self.var_cache = {}
        self.tcache = {}      # hash-consing of proxy terms across paths (pure term construction)

    # -- inputs -----------------------------------------------------------
    def fresh_int(self, name, lo=None, hi=None, real=False):
        if self.mode == "conc":
            v = self.values[name]
            if lo is not None:
                assert v >= lo, (name, v, lo)
            if hi is not None:
                assert v <= hi, (name, v, hi)
            return v
        if name in self.vars:
            raise EngineFault(f"duplicate symbolic variable {name}")
        self.var_bounds[name] = (lo, hi)
        v = self.var_cache.get((name, real))
        if v is None:
            v = z3.Real(name) if real else z3.Int(name)
            self.var_cache[(name, real)] = v
        self.vars[name] = v
        if lo is not None:
            self._add(v >= lo)
        if hi is not None:
            self._add(v <= hi)
        return SInt(self, v)

    def choice(self, n, label=None):
        """Exhaustive finite non-deterministic choice in range(n)."""
        if n <= 0:
            raise EngineFault("choice from empty range")
        if self.mode == "conc":
            if self.script_mode:
                d = self.script[len(self.choice_log)]
                assert 0 <= d < n, (d, n, label)
                self.choice_log.append(d)
                return d
            # exhaustive concrete exploration of the choices (degraded-path fallback)
            if self.pos < len(self.trail):
                d = self.trail[self.pos][0]
            else:
                self.trail.append([0, n])
                d = 0
            self.pos += 1
            self.choice_log.append(d)
            return d
        if self.pos < len(self.trail):
            d = self.trail[self.pos][0]
        else:
            self.trail.append([0, n])
            d = 0
        self.pos += 1
        self.stats["choices"] += 1
        self.choice_log.append(d)
        return d

    # -- solver plumbing --------------------------------------------------
    def _add(self, e):
        self.solver.add(e)
        if self.model is not None:
            try:
                if not z3.is_true(self.model.eval(e, model_completion=True)):
                    self.model = None
            except z3.Z3Exception:
                self.model = None

    def _check(self, *extra):
        t = time.perf_counter()
        r = self.solver.check(*extra)
        self.stats["solver_s"] += time.perf_counter() - t
        self.stats[str(r)] += 1
        return r

    def _ensure_model(self):
        if self.model is None:
            r = self._check()
            if r == z3.sat:
                self.model = self.solver.model()
            elif r == z3.unsat:
                raise PathAbort("infeasible path")
            else:
                raise Unsupported("solver unknown on path condition")
        return self.model

    def _feasible(self, e):
        """Is PC ∧ e satisfiable? Returns (bool, model or None)."""
        self.solver.push()
        self.solver.add(e)
        r = self._check()
        m = self.solver.model() if r == z3.sat else None
        self.solver.pop()
        if r == z3.unknown:
            raise Unsupported("solver unknown")
        return r == z3.sat, m

    def branch(self, e, eid=None):
        if self.mode == "conc":  # pragma: no cover - symbolic terms never exist here
            raise EngineFault("symbolic branch in concrete mode")
        self.stats["branches"] += 1
        # a condition already decided on this path needs neither a trail entry
        # nor a solver call (z3 terms are hash-consed: same id = same term)
        if eid is None:
            eid = e.get_id()
        d = self.decided.get(eid)
        if d is not None:
            return d
        self._keep.append(e)
        if self.pos < len(self.trail):
            d = self.trail[self.pos][0]
            self.pos += 1
            self._add(e if d else z3.Not(e))
            self.decided[eid] = d
            return d
        se = z3.simplify(e)
        if z3.is_true(se) or z3.is_false(se):
            d = z3.is_true(se)
            self.trail.append([d, 1])
            self.pos += 1
            self.decided[eid] = d
            return d
        m = self._ensure_model()
        d = z3.is_true(m.eval(se, model_completion=True))
        other = z3.Not(se) if d else se
        ok, m2 = self._feasible(other)
        if ok:
            self.trail.append([d, 2])
            self.stats["forks"] += 1
        else:
            self.trail.append([d, 1])
        self.pos += 1
        self.solver.add(se if d else z3.Not(se))
        self.decided[eid] = d
        return d

    def assume(self, cond):
        """Constrain the inputs (placed before the code it constrains)."""
        if self.mode == "conc":
            if not cond:
                raise PathAbort("assumption false in concrete replay")
            return
        if isinstance(cond, SBool):
            self._add(cond.e)   # feasibility is established lazily (next branch / end of path)
        elif not cond:
            raise PathAbort("assumption false")

    def concretize(self, x):
        """Bounded, recorded enumeration of the feasible values of x, smallest
        first (the order must not depend on which model the solver happens to
        return, or re-execution would diverge)."""
        for _ in range(self.max_concretize):
            v = self._min_value(x)
            self.stats["concretisations"] += 1
            if self.branch(x.e == v):
                return v
        raise Unsupported("concretisation bound exceeded")

    def _min_value(self, x):
        m = self._ensure_model()
        v = m.eval(x.e, model_completion=True)
        if not z3.is_int_value(v):
            raise Unsupported("non-integer concretisation")
        v = v.as_long()
        for _ in range(4 * self.max_concretize):
            ok, m2 = self._feasible(x.e < v)
            if not ok:
                return v
            v = m2.eval(x.e, model_completion=True).as_long()
        raise Unsupported("no minimal value (unbounded below)")

    # -- obligations ------------------------------------------------------
    def model_values(self, m=None):
        m = m or self._ensure_model()
        out = {}
        for n, v in self.vars.items():
            val = m.eval(v, model_completion=True)
            if z3.is_int_value(val):
                out[n] = val.as_long()
            else:
                fr = val.as_fraction() if hasattr(val, "as_fraction") else None
                out[n] = float(fr) if fr is not None else str(val)
        return out

    def eval(self, x, m=None):
        if isinstance(x, (SInt, SBool)):
            m = m or self._ensure_model()
            v = m.eval(x.e, model_completion=True)
            if z3.is_int_value(v):
                return v.as_long()
            if z3.is_true(v):
                return True
            if z3.is_false(v):
                return False
            if z3.is_rational_value(v):
                return float(v.as_fraction())
            return str(v)
        return x

    def fail(self, key, detail=""):
        """Unconditional failure on the current path."""
        self.stats["obligations"] += 1
        if self.mode == "conc":
            self.violations.append(Violation(key, detail, dict(self.values),
                                             list(self.choice_log), True))
            return
        self.violations.append(Violation(key, detail, self.model_values(),
                                         list(self.choice_log)))

    def prove(self, cond, key, detail=""):
        """Obligation: cond holds for every input on this path."""
        self.stats["obligations"] += 1
        if self.mode == "conc":
            if isinstance(cond, (SBool, SInt)):
                raise EngineFault("symbolic value in concrete mode")
            if not cond:
                self.violations.append(Violation(key, detail, dict(self.values),
                                                 list(self.choice_log), True))
            return bool(cond)
        if not isinstance(cond, SBool):
            if not cond:
                self.violations.append(Violation(key, detail, self.model_values(),
                                                 list(self.choice_log)))
            else:
                self.stats["proved_trivial"] += 1
            return bool(cond)
        if cond.e.get_id() in self.decided_true:
            self.stats["proved"] += 1
            return True
        e = z3.simplify(cond.e)
        if z3.is_true(e):
            self.stats["proved_trivial"] += 1
            return True
        m = self.model
        if m is not None and z3.is_false(m.eval(e, model_completion=True)):
            ok, m2 = True, m
        else:
            ok, m2 = self._feasible(z3.Not(e))
        if ok:
            self.violations.append(Violation(key, detail, self.model_values(m2),
                                             list(self.choice_log)))
            return False
        self.stats["proved"] += 1
        self.decided_true.add(cond.e.get_id())
        self._keep.append(cond.e)
        return True

    def prove_all(self, items):
        """items: list of (cond, key[, detail]); one query for the conjunction,
        then individual queries only if it fails."""
        items = [it if len(it) == 3 else (it[0], it[1], "") for it in items]
        if self.mode == "conc":
            for c, k, d in items:
                self.prove(c, k, d)
            return
        allc = vand([c for c, _, _ in items])
        if isinstance(allc, SBool) and allc.e.get_id() in self.decided_true:
            self.stats["obligations"] += len(items)
            self.stats["proved"] += len(items)
            return
        if isinstance(allc, SBool):
            e = z3.simplify(allc.e)
            if z3.is_true(e):
                self.stats["obligations"] += len(items)
                self.stats["proved_trivial"] += len(items)
                return
            ok, _ = self._feasible(z3.Not(e))
            if not ok:
                self.stats["obligations"] += len(items)
                self.stats["proved"] += len(items)
                self.decided_true.add(allc.e.get_id())
                self._keep.append(allc.e)
                return
        elif allc:
            self.stats["obligations"] += len(items)
            self.stats["proved_trivial"] += len(items)
            return
        for c, k, d in items:
            self.prove(c, k, d)

    def reachable(self, key="reach"):
        """Reachability witness: 'False' must be refutable here."""
        self.stats.setdefault("reached", {})
        self.stats["reached"][key] = self.stats["reached"].get(key, 0) + 1

    def observe(self, label, value):
        self.obs.append((label, value))

    # -- exploration ------------------------------------------------------
    def run_concrete(self, fn):
        assert self.mode == "conc"
        self.obs, self.choice_log = [], []
        try:
            fn(self)
        except PathAbort:
            pass
        return self.obs

    def explore_concrete(self, fn, deadline=None):
        """conc mode without a script: run fn for every combination of choices."""
        assert self.mode == "conc" and not self.script_mode
        self.trail = []
        n = 0
        while True:
            self.pos = 0
            self.obs, self.choice_log = [], []
            try:
                fn(self)
            except PathAbort:
                pass
            except Unsupported:
                pass
            n += 1
            while self.trail:
                d, k = self.trail[-1]
                if d + 1 < k:
                    self.trail[-1] = [d + 1, k]
                    break
                self.trail.pop()
            if not self.trail or (deadline is not None and time.time() > deadline):
                return n

    def explore(self, fn, validate=None, deadline=None):
        """Run fn once per feasible path. validate(values, choices) -> list of
        concrete observations (or None to skip validation)."""
        assert self.mode == "sym"
        while True:
            self.solver.push()
            self.pos = 0
            self.model = None
            self.vars = {}
            self.decided = {}
            self.decided_true = set()
            self._keep = []
            self.obs, self.choice_log = [], []
            aborted = False
            try:
                fn(self)
            except PathAbort:
                aborted = True
            if not aborted:
                try:
                    self._ensure_model()
                except PathAbort:
                    aborted = True
            if not aborted:
                self.stats["paths"] += 1
                if validate is not None:
                    self._validate(validate)
                if self.big_validate is not None and (self.stats["paths"] <= 4 or self.stats["paths"] % self.big_every == 0):
                    self._big_validate()
                if self.on_path_end is not None:
                    self.on_path_end(self)
            self.solver.pop()
            while self.trail:
                d, n = self.trail[-1]
                if isinstance(d, bool):
                    if n == 2:
                        self.trail[-1] = [not d, 1]
                        break
                    self.trail.pop()
                else:
                    if d + 1 < n:
                        self.trail[-1] = [d + 1, n]
                        break
                    self.trail.pop()
            if not self.trail:
                return True
            if deadline is not None and time.time() > deadline:
                return False

    def _validate(self, validate):
        m = self._ensure_model()
        values = self.model_values(m)
        sym_obs = [(l, _norm(self.eval(v, m))) for l, v in self.obs]
        conc_obs = validate(values, list(self.choice_log))
        if conc_obs is None:
            return
        conc_obs = [(l, _norm(v)) for l, v in conc_obs]
        if sym_obs != conc_obs:
            for i, (a, b) in enumerate(zip(sym_obs, conc_obs)):
                if a != b:
                    raise EngineFault(
                        f"symbolic/concrete divergence at obs {i}: {a} vs {b}; "
                        f"values={values} choices={self.choice_log}")
            raise EngineFault(
                f"symbolic/concrete observation count differs: {len(sym_obs)} vs "
                f"{len(conc_obs)}; values={values} choices={self.choice_log}")
        self.stats["validated"] += 1


BIG = 2 ** 24 + 1   # first integer float32 cannot represent


def _big_patterns(names):
    """Constraint patterns for the large models: all inputs large (pairwise different, odd offsets), only the first /
    only the last input large and the others small."""
    n = len(names)
    yield "all-large", {nm: ("ge", BIG + 2 * i) for i, nm in enumerate(names)}
    if n > 1:
        yield "first-large", {nm: (("ge", BIG) if i == 0 else ("le", 3)) for i, nm in enumerate(names)}
        yield "last-large", {nm: (("ge", BIG) if i == n - 1 else ("le", 3)) for i, nm in enumerate(names)}


def _engine_big_validate(self):
    """The solver is asked for models of the path condition in which the unbounded inputs are LARGE (>= 2**24+1, where
    float32 stops representing every integer); each such model is run concretely on the un-instrumented library with the
    same choices.  The callback judges the concrete run (oracles in concrete mode) and compares its observations with
    the symbolic ones evaluated under that model."""
    names = [n for n, (lo, hi) in self.var_bounds.items()
             if hi is None and n in self.vars and not n.startswith(("clock", "cp", "r_", "rnd"))]
    if not names:
        return
    for label, pat in _big_patterns(names):
        self.solver.push()
        for nm, (op, val) in pat.items():
            self.solver.add(self.vars[nm] >= val if op == "ge" else self.vars[nm] <= val)
        t0 = time.time()
        r = self.solver.check()
        self.stats["solver_s"] += time.time() - t0
        self.stats["sat" if r == z3.sat else "unsat" if r == z3.unsat else "unknown"] += 1
        m = self.solver.model() if r == z3.sat else None
        values = sym_obs = None
        if m is not None:
            values = self.model_values(m)
            saved, self.model = self.model, m      # nested proxies are evaluated under the large model too
            try:
                sym_obs = [(l, _norm(self.eval(v, m))) for l, v in self.obs]
            finally:
                self.model = saved
        self.solver.pop()
        if m is not None:
            self.stats["big_models"] = self.stats.get("big_models", 0) + 1
            self.big_validate(values, list(self.choice_log), sym_obs, label)


Engine._big_validate = _engine_big_validate


def _norm(v):
    """Normalise an observed value for comparison between modes."""
    if isinstance(v, bool):
        return v
    if isinstance(v, (list, tuple)):
        return [_norm(x) for x in v]
    if isinstance(v, dict):
        return {str(k): _norm(x) for k, x in v.items()}
    if isinstance(v, (SInt, SBool)):
        return _norm(v.eng.eval(v))
    try:
        import numpy as np

        if isinstance(v, np.ndarray):
            return [_norm(x) for x in v.tolist()]
        if isinstance(v, (np.integer,)):
            return _real_int(v)
        if isinstance(v, (np.floating,)):
            v = float(v)
        if isinstance(v, np.bool_):
            return bool(v)
    except ImportError:  # pragma: no cover
        pass
    if isinstance(v, float):
        if v != v:
            return "nan"
        if v in (INF, -INF):
            return repr(v)
        if v == _real_int(v):
            return _real_int(v)
        return round(v, 6)
    return v


# --------------------------------------------------------------------------
# second opinion on one-shot queries: re-decide with an independent solver binary
# --------------------------------------------------------------------------
def second_opinion(solver, timeout_s=120, binaries=("/usr/bin/z3",)):
    """Dump the assertions of a z3.Solver as SMT-LIB2 and re-decide them with
    other solver binaries.  Returns {binary: 'sat'|'unsat'|'unknown'|'error'}."""
    import os
    import subprocess
    import tempfile

    text = "(set-logic ALL)\n" + solver.to_smt2()
    fd, path = tempfile.mkstemp(suffix=".smt2", dir="/dev/shm" if os.path.isdir("/dev/shm") else None)
    out = {}
    try:
        with os.fdopen(fd, "w") as f:
            f.write(text)
        for b in binaries:
            if not os.path.exists(b) and "/" in b:
                out[b] = "missing"
                continue
            cmd = [b, f"-T:{timeout_s}", path] if b.endswith("z3") else [b, f"--tlimit={timeout_s * 1000}", path]
            try:
                r = subprocess.run(cmd, capture_output=True, text=True, timeout=timeout_s + 10)
                o = (r.stdout + r.stderr).strip()
                if "(error" in o or "error" in o.lower() and "unsat" not in o and "sat" not in o:
                    out[b] = "error"
                else:
                    first = o.splitlines()[0].strip() if o else "unknown"
                    out[b] = first if first in ("sat", "unsat", "unknown") else "error"
            except subprocess.TimeoutExpired:
                out[b] = "unknown"
    finally:
        os.unlink(path)
    return out
