"""Environment models injected into the namespaces of the already imported
job_shop_lib modules (the source files are never edited)."""
from __future__ import annotations

import importlib
import sys

from . import engine as E

_INSTALLED = []  # (module, name, had, old)


def _set(mod, name, val):
    had = name in mod.__dict__
    old = mod.__dict__.get(name)
    _INSTALLED.append((mod, name, had, old))
    setattr(mod, name, val)


def lib_modules():
    importlib.import_module("job_shop_lib")
    for pkg in ("dispatching", "dispatching.rules", "dispatching.feature_observers",
                "graphs", "graphs.graph_updaters", "generation",
                "constraint_programming", "reinforcement_learning",
                "visualization", "benchmarking"):
        try:
            importlib.import_module("job_shop_lib." + pkg)
        except Exception:  # a broken optional sub-package must not mask others
            pass
    return [m for n, m in sorted(sys.modules.items())
            if n.startswith("job_shop_lib") and m is not None]


def install_builtins():
    """max/min without forks in every library module; int() identity on SInt in
    the dispatcher (int(min_start_time))."""
    for m in lib_modules():
        _set(m, "max", E.sym_max)
        _set(m, "min", E.sym_min)
    d = importlib.import_module("job_shop_lib.dispatching._dispatcher")
    _set(d, "int", E.sym_int)


def install(name_module_pairs):
    for mod, name, val in name_module_pairs:
        _set(mod, name, val)


def uninstall():
    while _INSTALLED:
        mod, name, had, old = _INSTALLED.pop()
        if had:
            setattr(mod, name, old)
        else:
            try:
                delattr(mod, name)
            except AttributeError:
                pass


class installed:
    """Context manager: with models.installed(extra=[...]): ..."""

    def __init__(self, extra=None, builtins=True):
        self.extra, self.builtins = extra or [], builtins

    def __enter__(self):
        if self.builtins:
            install_builtins()
        install(self.extra)
        return self

    def __exit__(self, *a):
        uninstall()
        return False


class suspended:
    """Temporarily remove all injected models (concrete re-runs use the
    unmodified library)."""

    def __enter__(self):
        self.saved = list(_INSTALLED)
        self.cur = [(m, n, getattr(m, n)) for m, n, _, _ in _INSTALLED]
        uninstall()
        return self

    def __exit__(self, *a):
        for m, n, v in self.cur:
            _set(m, n, v)
        return False
