"""Environment models injected into the namespaces of the already imported
job_shop_lib modules (the source files are never edited)."""
from __future__ import annotations

import importlib
import sys

from . import engine as E

_INSTALLED = []  # (module, name, had, old)


def _set(mod, name, val):
    had = name in mod.__dict__
    old = mod.__dict__.get(name)
    _INSTALLED.append((mod, name, had, old))
    setattr(mod, name, val)


def lib_modules():
    importlib.import_module("job_shop_lib")
    for pkg in ("dispatching", "dispatching.rules", "dispatching.feature_observers",
                "graphs", "graphs.graph_updaters", "generation",
                "constraint_programming", "reinforcement_learning",
                "visualization", "benchmarking"):
        try:
            importlib.import_module("job_shop_lib." + pkg)
        except Exception:  # a broken optional sub-package must not mask others
            pass
    return [m for n, m in sorted(sys.modules.items())
            if n.startswith("job_shop_lib") and m is not None]


def install_builtins():
    """max/min without forks in every library module; int() identity on SInt in
    the dispatcher (int(min_start_time))."""
    for m in lib_modules():
        _set(m, "max", E.sym_max)
        _set(m, "min", E.sym_min)
    d = importlib.import_module("job_shop_lib.dispatching._dispatcher")
    _set(d, "int", E.sym_int)


def install(name_module_pairs):
    for mod, name, val in name_module_pairs:
        _set(mod, name, val)


def uninstall():
    while _INSTALLED:
        mod, name, had, old = _INSTALLED.pop()
        if had:
            setattr(mod, name, old)
        else:
            try:
                delattr(mod, name)
            except AttributeError:
                pass


class installed:
    """Context manager: with models.installed(extra=[...]): ..."""

    def __init__(self, extra=None, builtins=True):
        self.extra, self.builtins = extra or [], builtins

    def __enter__(self):
        if self.builtins:
            install_builtins()
        install(self.extra)
        return self

    def __exit__(self, *a):
        uninstall()
        return False


class suspended:
    """Temporarily remove all injected models (concrete re-runs use the
    unmodified library)."""

    def __enter__(self):
        self.saved = list(_INSTALLED)
        self.cur = [(m, n, getattr(m, n)) for m, n, _, _ in _INSTALLED]
        uninstall()
        return self

    def __exit__(self, *a):
        for m, n, v in self.cur:
            _set(m, n, v)
        return False


# --------------------------------------------------------------------------
# numpy facade: value-carrying float arrays become exact object arrays
# --------------------------------------------------------------------------
import math as _math

import numpy as _np


def _has_sym(o):
    if isinstance(o, (E.SInt, E.SBool)):
        return True
    if isinstance(o, _np.ndarray):
        return o.dtype == object
    if isinstance(o, (list, tuple)):
        return any(_has_sym(x) for x in o)
    return False


class NumpyFacade:
    """Thin facade over the real numpy: float dtypes are stored as exact
    python objects (so symbolic ints survive); every function still runs in
    the real numpy.  float32 rounding is therefore outside the claim."""

    float32 = object

    def __getattr__(self, name):
        return getattr(_np, name)

    @staticmethod
    def _dt(dtype):
        if dtype is None or dtype in (float, _np.float32, _np.float64, object):
            return object
        return dtype

    def zeros(self, shape, dtype=None, **kw):
        dt = self._dt(dtype)
        a = _np.empty(shape, dtype=dt)
        a.fill(0)
        return a

    def ones(self, shape, dtype=None, **kw):
        a = _np.empty(shape, dtype=self._dt(dtype))
        a.fill(1)
        return a

    def full(self, shape, fill_value, dtype=None, **kw):
        a = _np.empty(shape, dtype=self._dt(dtype))
        a.fill(fill_value)
        return a

    def array(self, obj, dtype=None, **kw):
        if _has_sym(obj) or (dtype is not None and self._dt(dtype) is object):
            return _np.array(obj, dtype=object, **kw)
        return _np.array(obj, dtype=dtype, **kw)

    def asarray(self, obj, dtype=None, **kw):
        if isinstance(obj, _np.ndarray) and (dtype is None or obj.dtype == object):
            return obj
        return self.array(obj, dtype=dtype, **kw)

    def isnan(self, a):
        a = _np.asarray(a)
        if a.dtype != object:
            return _np.isnan(a)
        return _np.frompyfunc(lambda x: isinstance(x, float) and x != x, 1, 1)(a).astype(bool)

    def isinf(self, a):
        a = _np.asarray(a)
        if a.dtype != object:
            return _np.isinf(a)
        return _np.frompyfunc(lambda x: isinstance(x, float) and _math.isinf(x), 1, 1)(a).astype(bool)

    def maximum(self, a, b, **kw):
        if _has_sym(a) or _has_sym(b):
            return _np.frompyfunc(lambda x, y: E.sym_max(x, y), 2, 1)(a, b)
        return _np.maximum(a, b, **kw)

    def minimum(self, a, b, **kw):
        if _has_sym(a) or _has_sym(b):
            return _np.frompyfunc(lambda x, y: E.sym_min(x, y), 2, 1)(a, b)
        return _np.minimum(a, b, **kw)

    def min(self, a, axis=None, **kw):
        a = _np.asarray(a) if not isinstance(a, _np.ndarray) else a
        if a.dtype == object and not kw:
            return _np.frompyfunc(lambda x, y: E.sym_min(x, y), 2, 1).reduce(a, axis=axis)
        return _np.min(a, axis=axis, **kw)

    def max(self, a, axis=None, **kw):
        a = _np.asarray(a) if not isinstance(a, _np.ndarray) else a
        if a.dtype == object and not kw:
            return _np.frompyfunc(lambda x, y: E.sym_max(x, y), 2, 1).reduce(a, axis=axis)
        return _np.max(a, axis=axis, **kw)


NP = NumpyFacade()


def numpy_facade_models(include_rl=False):
    """(module, 'np', facade) triples for every library module that holds
    numeric feature arrays."""
    out = []
    for m in lib_modules():
        n = m.__name__
        if "np" not in m.__dict__:
            continue
        if n.startswith("job_shop_lib.dispatching.feature_observers") or \
                n == "job_shop_lib._job_shop_instance" or \
                n == "job_shop_lib.dispatching.rules._dispatching_rules_functions" or \
                (include_rl and n.startswith("job_shop_lib.reinforcement_learning")):
            out.append((m, "np", NP))
    return out
