"""C01 — every dispatch history yields a feasible schedule."""
from __future__ import annotations

from .. import drivers as D
from ..spec import Spec, feasibility_obligations
from . import common as C

ID = "C01"
ASSUMPTIONS = [
    "durations are arbitrary integers >= 0 (z3 Int, unbounded above); non-integer durations outside the claim",
    "instance shapes bounded as stated in coverage.bounds; larger shapes outside the claim",
    "builtins max/min modelled as If-terms (first-wins), int() identity on integer terms",
    "probe sub-spaces issue read-only start_time/min_start_time queries for ALL unscheduled operations (also those not ready yet) before every dispatch",
    "in every state of the unfiltered sub-spaces a request on an in-range machine the operation is not eligible for is tried on a throw-away "
    "replica: if it is accepted, the resulting schedule is judged like any other (ineligible machine = infeasible); in the probe sub-spaces "
    "the same is done, in every state including the complete one, for every operation that is not ready (already scheduled - also the last one "
    "of a finished job - or too early), with and without an explicit machine",
    "'second' sub-spaces run the history on a dispatcher that already played an episode of every length and was reset()",
    "'bystander' sub-spaces keep a second dispatcher on the same instance object (one step ahead, own history, queried) and a dispatcher on "
    "another instance with the same name alive and moving between the dispatches (common.Bystander)",
]
STUBS = ["max", "min", "int (dispatcher module only)"]
BUDGET = {"quick": 420, "thorough": 2400}


def bounds(tier):
    return _bounds(tier) + "; probe sub-spaces (shapes <=3 ops, (2,2), (2,1,1), M<=2): every not-ready request in every state on a replica"


def _bounds(tier):
    if tier == "quick":
        return ("shapes: every ordered job-length vector with <=3 jobs and <=4 operations; machines: every "
                "assignment with M<=2 (non-flexible) x filters {none, 4 built-ins, default pair}; every non-empty "
                "eligible set with M<=2 (flexible) on <=3 operations x filters {none, default pair}; every interleaving "
                "x every eligible machine at every step; durations Z>=0")
    return ("quick bound + flexible M<=2 on 4 operations x all 6 filter settings + <=3 jobs, 5 operations, M<=3 "
            "non-flexible (all filters) + shapes (2,2,2),(3,3),(3,2,1),(4,2) M<=3 up to machine renaming")


def subspaces(tier):
    out = []
    s4 = D.shapes(3, 4)
    filters = list(C.FILTERS)
    for f in filters:
        out += C.structure_subspaces(s4, 2, False, filter=f)
    s3 = D.shapes(3, 3)
    for f in (["none", "default_pair"] if tier == "quick" else filters):
        out += C.structure_subspaces(s3, 2, True, only_flexible=True, filter=f)
    out += C.structure_subspaces(s3 + [(2, 2)], 2, False, canonical=True, filter="default_pair", second=True)
    out += C.structure_subspaces(s3 + [(2, 2), (2, 1, 1)], 2, False, filter="none", probe=True)
    out += C.structure_subspaces(D.shapes(2, 2), 2, True, only_flexible=True, filter="none", second=True)
    for f in ("none", "default_pair"):
        out += C.wide_subspaces(filter=f)
        out += C.structure_subspaces(s3 + [(2, 2)], 2, False, canonical=True, filter=f, bystander=True)
    out += C.structure_subspaces(D.shapes(2, 2), 2, True, only_flexible=True, filter="default_pair", bystander=True)
    if tier == "thorough":
        s4only = [s for s in s4 if sum(s) == 4]
        for f in filters:
            out += C.structure_subspaces(s4only, 2, True, only_flexible=True, filter=f)
        s5 = [s for s in D.shapes(3, 5) if sum(s) == 5]
        for f in filters:
            out += C.structure_subspaces(s5, 3, False, canonical=True, filter=f)
        for f in ("none", "default_pair"):
            out += C.structure_subspaces([(2, 2, 2), (3, 3), (3, 2, 1), (4, 2)], 3, False, canonical=True, filter=f)
    return out


def cost(sp):
    return C.cost(sp) * (C.cost(sp) if sp.get('second') else 1)


def check_state(eng, desc, disp, spec, k):
    """C01 oracle on the schedule held by the dispatcher."""
    lists = D.lib_lists(disp.schedule)
    problems, conds = feasibility_obligations(desc, lists)
    for key, detail in problems:
        eng.fail("C01/" + key, detail)
    n = sum(len(l) for l in lists)
    if n != k:
        eng.fail("C01/wrong-number-of-scheduled-operations", f"{n} entries after {k} dispatches")
    eng.prove_all([(c, "C01/" + key) for c, key in conds])


def try_rejected(eng, sp, desc, inst, spec, k):
    """Requests that must not be ACCEPTED, tried on a throw-away replica of the current state: if one is accepted, the
    resulting schedule is judged like any other (ineligible machine / operation twice / job order = infeasible)."""
    from job_shop_lib.dispatching import Dispatcher
    if sp.get("filter", "none") != "none":
        return
    reqs = []
    if desc.n_machines > 1:
        reqs += [(o_, mm) for o_ in spec.ready_ops() for mm in range(desc.n_machines) if mm not in desc.machines[o_]]
    if sp.get("probe"):
        # operations that are not ready: already scheduled ones (also the last one of a finished job) and too-early ones
        ready = set(spec.ready_ops())
        reqs += [(o_, mm) for o_ in range(desc.n_ops) if o_ not in ready for mm in desc.machines[o_] + [None]]
    for o_, mm in reqs:
        rep = Dispatcher(inst)
        for ho, hm in spec.history:
            rep.dispatch(D.op_by_id(inst, ho), hm)
        try:
            if mm is None:
                rep.dispatch(D.op_by_id(inst, o_))
            else:
                rep.dispatch(D.op_by_id(inst, o_), mm)
        except D.E.Unsupported:
            raise
        except Exception:
            continue
        check_state(eng, desc, rep, spec, k + 1)


def harness(eng, sp):
    from job_shop_lib.dispatching import Dispatcher

    inst, desc = D.build_instance(eng, sp["shape"], sp["machines"], dmin=0)
    disp = Dispatcher(inst, ready_operations_filter=C.make_filter(sp.get("filter")))
    if sp.get("second"):
        # an earlier episode of chosen length on the same dispatcher, then reset(): later episodes are dispatch histories too
        s0 = Spec(desc)
        for _ in range(1 + eng.choice(desc.n_ops, "first-episode-length")):
            disp.available_operations()
            op, m = D.choose_dispatch(eng, desc, s0)
            disp.dispatch(D.op_by_id(inst, op), m)
            s0.apply(op, m)
        disp.reset()
    spec = Spec(desc)
    by = C.Bystander(inst) if sp.get("bystander") else None
    for k in range(desc.n_ops):
        if by:
            by.step()
        if sp.get("filter", "none") != "none":
            try:
                disp.available_operations()
            except D.E.Unsupported:
                raise
            except Exception as ex:
                eng.fail("C01/exception-in-available_operations", f"{type(ex).__name__}: {ex}")
                return
        if sp.get("probe"):
            # read-only look-ahead queries (also for operations that are not ready yet) must not influence later dispatches
            for o_ in spec.unscheduled_ops():
                for mm in desc.machines[o_]:
                    disp.start_time(D.op_by_id(inst, o_), mm)
            disp.min_start_time(disp.unscheduled_operations())
        try_rejected(eng, sp, desc, inst, spec, k)
        op, m = D.choose_dispatch(eng, desc, spec)
        lop = D.op_by_id(inst, op)
        try:
            if len(desc.machines[op]) == 1 and (op + k) % 2 == 0:   # the documented default: machine taken from the operation
                disp.dispatch(lop)
            else:
                disp.dispatch(lop, m)
        except D.E.Unsupported:
            raise
        except Exception as ex:
            eng.fail("C01/exception-on-accepted-dispatch", f"{type(ex).__name__}: {ex}")
            return
        spec.apply(op, m)
        eng.reachable("transition")
        eng.reachable("state")
        check_state(eng, desc, disp, spec, k + 1)
        eng.observe("start", [s for lst in D.lib_lists(disp.schedule) for (_, s, _) in lst])
        complete = disp.schedule.is_complete()
        if complete != (k + 1 == desc.n_ops):
            eng.fail("C01/is_complete-wrong", f"is_complete()={complete} after {k + 1} of {desc.n_ops}")
    try_rejected(eng, sp, desc, inst, spec, desc.n_ops)


def big_models(sp):
    # solver-chosen large models (>= 2**24+1) of the path conditions, run on the un-instrumented library
    return True
