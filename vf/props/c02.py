"""C02 — start times are forced, bookkeeping matches, histories replay."""
from __future__ import annotations

from .. import drivers as D
from .. import models
from ..spec import Spec, vand, veq
from . import common as C

ID = "C02"
ASSUMPTIONS = [
    "durations are arbitrary integers >= 0 (z3 Int, unbounded above)",
    "shapes bounded as in coverage.bounds",
    "builtins max/min modelled as If-terms, int() identity on integer terms",
    "'bystander' sub-spaces keep a second dispatcher on the same instance object (one step ahead, own history, queried) and a dispatcher on another instance with the same name alive and moving between the dispatches (common.Bystander)",
    "probe variants also send, before every dispatch, every request that must be rejected (ineligible in-range machine, operation not ready) to "
    "the dispatcher under test and swallow the exception: only accepted requests form the history",
    "probe variants issue public queries (current_time, start_time on every eligible machine, earliest_start_time, ongoing/uncompleted) between dispatches",
    "observed sub-spaces subscribe one of every observer the library ships (history, unscheduled-operations, 7 feature observers + composite, "
    "2 reward observers, residual graph updater) before the first dispatch (numpy facade: float32 rounding outside)",
    "replay is checked on a fresh dispatcher after every prefix and on the same dispatcher after reset() at the end "
    "(thorough: also at a chosen prefix); Schedule.from_job_sequences replay is part of C14",
]
STUBS = ["max", "min", "int (dispatcher module only)", "np facade (observed sub-spaces)"]
XHAIR_PREFIX = "c02_"   # leaf kernels re-decided by CrossHair (vf/xhair/kernels.py)
BUDGET = {"quick": 420, "thorough": 2400}


def bounds(tier):
    return _bounds(tier) + "; observed: all library observers subscribed, shapes <=3 ops and (2,2) M<=2"


def _bounds(tier):
    if tier == "quick":
        return ("ordered shapes <=3 jobs, <=4 operations; every machine assignment M<=2 non-flexible x filter {none, default pair}; "
                "every flexible structure M<=2 on <=3 operations (no filter); all interleavings x machine choices; durations Z>=0")
    return ("quick bound + flexible M<=2 on 4 operations, reset at every prefix; 5 operations M<=3 and (2,2,2),(3,3),(3,2,1),(4,2) "
            "M<=3 non-flexible up to machine renaming")


def subspaces(tier):
    out = []
    s4 = D.shapes(3, 4)
    for f in ("none", "default_pair"):
        out += C.structure_subspaces(s4, 2, False, filter=f)
    out += C.structure_subspaces(D.shapes(3, 3), 2, True, only_flexible=True, filter="none")
    out += C.structure_subspaces(D.shapes(3, 3), 2, True, only_flexible=True, filter="none", probe=True)
    out += C.structure_subspaces(D.shapes(3, 3), 2, True, only_flexible=True, filter="default_pair")
    out += C.structure_subspaces([s for s in s4 if sum(s) >= 3], 2, False, filter="none", probe=True)
    for f in ("none", "default_pair"):
        out += C.wide_subspaces(filter=f)
    out += C.wide_subspaces(filter="none", probe=True, pairs=((1, 8),))
    out += C.tall_subspaces(filter="none") + C.tall_subspaces(filter="default_pair", shapes=((7, 3),))
    out += C.structure_subspaces(D.shapes(3, 3) + [(2, 2)], 2, False, filter="none", observed="atj")
    out += C.structure_subspaces(D.shapes(3, 3), 2, False, canonical=True, filter="default_pair", observed="disj")
    out += C.structure_subspaces(D.shapes(3, 3) + [(2, 2)], 2, False, canonical=True, filter="none", bystander=True)
    out += C.structure_subspaces(D.shapes(2, 2), 2, True, only_flexible=True, filter="default_pair", bystander=True)
    if tier == "thorough":
        out += C.structure_subspaces(s4, 2, False, filter="none", reset_prefix=True)
        out += C.structure_subspaces([s for s in s4 if sum(s) == 4], 2, True, only_flexible=True, filter="none")
        out += C.structure_subspaces([s for s in D.shapes(3, 5) if sum(s) == 5], 3, False, canonical=True, filter="none")
        out += C.structure_subspaces([(2, 2, 2), (3, 3), (3, 2, 1), (4, 2)], 3, False, canonical=True, filter="none")
    return out


cost = C.cost


def extra_models(sp):
    return models.numpy_facade_models(include_rl=True) if sp.get("observed") else []


def _starts(disp):
    return {op: (st, m) for lst in D.lib_lists(disp.schedule) for (op, st, m) in lst}


def _replay_matches(eng, inst, desc, hist, target, disp2, key):
    """Re-dispatch the recorded history on disp2 and compare with target lists."""
    try:
        for sop in hist:
            disp2.dispatch(sop.operation, sop.machine_id)
    except D.E.Unsupported:
        raise
    except Exception as ex:
        eng.fail(key + "/exception", f"{type(ex).__name__}: {ex}")
        return
    got = D.lib_lists(disp2.schedule)
    if [[(o, m) for (o, _, m) in l] for l in got] != [[(o, m) for (o, _, m) in l] for l in target]:
        eng.fail(key + "/machine-lists-differ", f"{got} vs {target}")
        return
    conds = [veq(a[1], b[1]) for la, lb in zip(got, target) for a, b in zip(la, lb)]
    eng.prove(vand(conds), key + "/start-times-differ")


def harness(eng, sp):
    from job_shop_lib.dispatching import Dispatcher, HistoryObserver

    inst, desc = D.build_instance(eng, sp["shape"], sp["machines"], dmin=0)
    filt = sp.get("filter", "none")
    disp = Dispatcher(inst, ready_operations_filter=C.make_filter(filt))
    hist = HistoryObserver(disp)
    if sp.get("observed"):
        # one of every observer the library ships is subscribed as well: none may disturb start times or bookkeeping
        C.attach_library_observers(disp, inst, sp["observed"])
    spec = Spec(desc)
    by = C.Bystander(inst) if sp.get("bystander") else None
    reset_at = eng.choice(desc.n_ops + 1, "reset_at") if sp.get("reset_prefix") else desc.n_ops
    for k in range(desc.n_ops):
        if k == reset_at:
            break
        if by:
            by.step()
        if filt != "none":
            disp.available_operations()
        if sp.get("probe"):
            # public queries between dispatches must not influence the next start time
            disp.current_time()
            for o in spec.ready_ops():
                for mm in desc.machines[o]:
                    disp.start_time(D.op_by_id(inst, o), mm)
                disp.earliest_start_time(D.op_by_id(inst, o))
            disp.ongoing_operations()
            disp.uncompleted_operations()
            for o in spec.unscheduled_ops():      # look-ahead for operations that are not ready yet
                for mm in desc.machines[o]:
                    disp.start_time(D.op_by_id(inst, o), mm)
            disp.min_start_time(disp.unscheduled_operations())
            if not sp.get("wide"):
                # requests that are NOT accepted (ineligible in-range machine, operation that is not ready) are not part of the
                # history: the start times and the bookkeeping after the accepted ones must not depend on them
                ready_ = set(spec.ready_ops())
                bad = [(o, mm) for o in sorted(ready_) for mm in range(desc.n_machines) if mm not in desc.machines[o]]
                bad += [(o, desc.machines[o][0]) for o in range(desc.n_ops) if o not in ready_]
                for o, mm in bad:
                    try:
                        disp.dispatch(D.op_by_id(inst, o), mm)
                    except D.E.Unsupported:
                        raise
                    except Exception:
                        continue
                    eng.fail("C02/request-that-must-be-rejected-was-accepted", f"op {o} machine {mm} after {spec.history}")
                    return
        op, m = D.choose_dispatch(eng, desc, spec)
        lop = D.op_by_id(inst, op)
        expected = spec.forced_start(op, m)
        try:
            if len(desc.machines[op]) == 1 and op % 2 == 0:
                disp.dispatch(lop)
            else:
                disp.dispatch(lop, m)
        except D.E.Unsupported:
            raise
        except Exception as ex:
            eng.fail("C02/exception-on-accepted-dispatch", f"{type(ex).__name__}: {ex}")
            return
        spec.apply(op, m)
        eng.reachable("transition")
        eng.reachable("state")
        got = _starts(disp)
        if op not in got or got[op][1] != m:
            eng.fail("C02/operation-not-on-chosen-machine", f"op {op} machine {m}: {got.get(op)}")
            return
        eng.observe("start", got[op][0])
        items = [(veq(got[op][0], expected), "C02/start-not-max-of-job-ready-and-machine-free")]
        items += [(veq(a, b), "C02/machine_next_available_time") for a, b in
                  zip(disp.machine_next_available_time, spec.mach_free)]
        items += [(veq(a, b), "C02/job_next_available_time") for a, b in
                  zip(disp.job_next_available_time, spec.job_free)]
        if len(disp.machine_next_available_time) != desc.n_machines or \
                len(disp.job_next_available_time) != desc.n_jobs:
            eng.fail("C02/tracking-list-length")
        if list(disp.job_next_operation_index) != spec.next_idx:
            eng.fail("C02/job_next_operation_index", f"{list(disp.job_next_operation_index)} vs {spec.next_idx}")
        if disp.schedule.num_scheduled_operations != k + 1:
            eng.fail("C02/num_scheduled_operations", f"{disp.schedule.num_scheduled_operations} vs {k + 1}")
        items.append((veq(disp.schedule.makespan(), spec.makespan()), "C02/makespan"))
        # all earlier start times unchanged (pure function of the history)
        items += [(veq(got[o][0], spec.start[o]), "C02/earlier-start-time-changed") for o in spec.start if o in got]
        eng.prove_all(items)
        # recorded history equals the dispatch sequence and replays on a fresh dispatcher
        rec = [(s.operation.operation_id, s.machine_id) for s in hist.history]
        if rec != spec.history:
            eng.fail("C02/history-record-differs", f"{rec} vs {spec.history}")
            return
        fresh = Dispatcher(inst, ready_operations_filter=C.make_filter(filt))
        _replay_matches(eng, inst, desc, list(hist.history), D.lib_lists(disp.schedule), fresh, "C02/replay-fresh")
    # reset the same dispatcher and replay
    target = D.lib_lists(disp.schedule)
    recorded = list(hist.history)
    disp.reset()
    if any(len(l) for l in D.lib_lists(disp.schedule)) or hist.history:
        eng.fail("C02/reset-leaves-schedule-or-history")
    _replay_matches(eng, inst, desc, recorded, target, disp, "C02/replay-after-reset")
    eng.prove_all([(veq(a, b), "C02/tracking-after-reset-replay") for a, b in
                   zip(list(disp.machine_next_available_time) + list(disp.job_next_available_time),
                       spec.mach_free + spec.job_free)])


def big_models(sp):
    # solver-chosen large models (>= 2**24+1) of the path conditions, run on the un-instrumented library
    return True
