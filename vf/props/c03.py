"""C03 — CP-SAT solver returns feasible, truly optimal schedules.

Layers (DESIGN section 6): (1) the model built by the real ORToolsSolver against a
recording cp_model stub is equivalent, for ALL durations, to an independent
disjunctive formulation; (2) the real reconstruction code runs on symbolic
solution values constrained only by the recorded model; (3) a reused solver
object records the same model as a fresh one; (4) the real OR-Tools runs on the
duration vectors the solver found for every path and z3 certifies optimality.
"""
from __future__ import annotations

import itertools
import re
import types

import z3

from .. import drivers as D
from .. import engine as E
from ..spec import Spec, Desc, feasibility_obligations, vand, vor, veq, vmax, vsum
from . import common as C

ID = "C03"
ASSUMPTIONS = [
    "non-flexible instances, durations arbitrary integers >= 0",
    "OR-Tools is trusted to return an assignment that satisfies the model it was given, and a minimal one when it reports OPTIMAL "
    "(environment contract of the cp_model stub); its search is outside the claim",
    "stub reading of AddNoOverlap: pairwise end_a <= start_b or end_b <= start_a, also for zero-length intervals (checked against the real "
    "CP-SAT by layer 4 and by a probe recorded in DESIGN.md)",
    "the stub maps variables to operations through the names the library gives them (start_/end_ + repr(operation), makespan)",
    "thorough tier: the stub's reading of cp_model is validated against the real CP-SAT: for every structure with <=3 operations and every "
    "duration vector in {0,1,2}^n the complete solution sets of the real model (objective removed, all solutions enumerated) and of the "
    "recorded model (z3 AllSAT) are equal",
    "layer 4 runs the real ORToolsSolver only on the concrete duration vectors produced by the solver for each symbolic path "
    "(representatives, not for-all) and on four benchmark instances in the thorough tier",
]
STUBS = ["max", "min", "int (dispatcher module only)", "cp_model (recording stub: CpModel, CpSolver, status constants)"]
BUDGET = {"quick": 480, "thorough": 3000}
OPTIMAL, FEASIBLE, INFEASIBLE, UNKNOWN, MODEL_INVALID = 4, 2, 3, 0, 1
STATUS = {"optimal": OPTIMAL, "feasible": FEASIBLE, "infeasible": INFEASIBLE, "unknown": UNKNOWN}


def bounds(tier):
    if tier == "quick":
        return ("every ordered shape <=3 jobs <=4 operations (status FEASIBLE: <=3), every non-flexible machine assignment M<=2; solver status in {OPTIMAL, FEASIBLE, "
                "UNKNOWN}; fresh solver and solver object reused after solving a different instance; durations Z>=0")
    return "quick + 5 operations M<=3 up to machine renaming; status INFEASIBLE; real OR-Tools on ft06, la01, la02, la05 (recorded optimum and bounds; z3 optimality certificate for ft06)"


def subspaces(tier):
    out = []
    s4 = D.shapes(3, 4)
    out += C.structure_subspaces(s4, 2, False, status="optimal", reuse=False)
    out += C.structure_subspaces(D.shapes(3, 3) if tier == "quick" else s4, 2, False, status="feasible", reuse=False)
    out += C.structure_subspaces(D.shapes(3, 3), 2, False, status="optimal", reuse=True)
    out += C.structure_subspaces(D.shapes(2, 2), 2, False, status="unknown", reuse=False)
    if tier == "thorough":
        out += C.structure_subspaces(s4, 2, False, status="feasible", reuse=True)
        out += C.structure_subspaces(D.shapes(2, 2), 2, False, status="infeasible", reuse=False)
        out += C.structure_subspaces([s for s in D.shapes(3, 5) if sum(s) == 5], 3, False, canonical=True, status="optimal", reuse=False)
        for b in ("ft06", "la01", "la02", "la05"):
            out.append(dict(shape=[1], machines=[[0]], status="optimal", reuse=(b == "la02"), benchmark=b))
        out += C.structure_subspaces(D.shapes(3, 3), 2, False, status="optimal", reuse=False, stubcheck=True)
    return out


def cost(sp):
    return C.n_interleavings(sp["shape"]) * 2 ** sum(sp["shape"])


# ---------------------------------------------------------------------------
# recording stub of ortools.sat.python.cp_model
# ---------------------------------------------------------------------------
def _val(o, env):
    return o.f(env) if isinstance(o, Lin) else o


class Cons:
    def __init__(self, f):
        self.f = f


class Lin:
    def __init__(self, f):
        self.f = f

    def __add__(self, o):
        return Lin(lambda env: self.f(env) + _val(o, env))

    __radd__ = __add__

    def __sub__(self, o):
        return Lin(lambda env: self.f(env) - _val(o, env))

    def __rsub__(self, o):
        return Lin(lambda env: _val(o, env) - self.f(env))

    def __eq__(self, o):
        return Cons(lambda env: veq(self.f(env), _val(o, env)))

    def __le__(self, o):
        return Cons(lambda env: self.f(env) <= _val(o, env))

    def __ge__(self, o):
        return Cons(lambda env: self.f(env) >= _val(o, env))

    def __lt__(self, o):
        return Cons(lambda env: self.f(env) < _val(o, env))

    def __gt__(self, o):
        return Cons(lambda env: self.f(env) > _val(o, env))

    __hash__ = object.__hash__


class Var(Lin):
    def __init__(self, idx, lo, hi, name):
        self.idx, self.lo, self.hi, self.name = idx, lo, hi, name
        super().__init__(lambda env: env[idx])


class Interval:
    def __init__(self, s, size, e):
        self.s, self.size, self.e = s, size, e


class StubModel:
    def __init__(self):
        self.vars, self.cons, self.obj, self.log = [], [], None, []

    def NewIntVar(self, lo, hi, name):
        v = Var(len(self.vars), lo, hi, name)
        self.vars.append(v)
        self.cons.append(lambda env, v=v: vand(env[v.idx] >= v.lo, env[v.idx] <= v.hi))
        self.log.append(f"var {v.idx} in [{lo},{hi}] {name}")
        return v

    def Add(self, c):
        if not isinstance(c, Cons):
            raise E.Unsupported("cp_model stub: Add() of a non-linear-constraint object")
        self.cons.append(c.f)
        self.log.append("add")
        return c

    def NewIntervalVar(self, start, size, end, name):
        self.cons.append(lambda env: veq(_val(start, env) + _val(size, env), _val(end, env)))
        self.log.append("interval")
        return Interval(start, size, end)

    def AddNoOverlap(self, ivs):
        ivs = list(ivs)
        for a, b in itertools.combinations(ivs, 2):
            self.cons.append(lambda env, a=a, b=b: vor(_val(a.e, env) <= _val(b.s, env), _val(b.e, env) <= _val(a.s, env)))
        self.log.append(f"nooverlap {len(ivs)}")

    def AddMaxEquality(self, t, es):
        es = list(es)
        self.cons.append(lambda env: vand(vand([_val(t, env) >= _val(x, env) for x in es]),
                                          vor([veq(_val(t, env), _val(x, env)) for x in es])))
        self.log.append(f"maxeq {len(es)}")

    def Minimize(self, v):
        self.obj = ("min", v)

    def Maximize(self, v):
        self.obj = ("max", v)

    def eval(self, env):
        return [c(env) for c in self.cons]


class StubSolver:
    ctx = None

    def __init__(self):
        self.parameters = types.SimpleNamespace()
        self.env = None

    def Solve(self, model, *a, **k):
        StubSolver.last = self
        self.env, status = StubSolver.ctx.on_solve(model)
        return status

    def Value(self, v):
        return _val(v, self.env)

    def ObjectiveValue(self):
        return None


def stub_namespace():
    return types.SimpleNamespace(CpModel=StubModel, CpSolver=StubSolver, OPTIMAL=OPTIMAL, FEASIBLE=FEASIBLE,
                                 INFEASIBLE=INFEASIBLE, UNKNOWN=UNKNOWN, MODEL_INVALID=MODEL_INVALID, IntVar=Var)


def extra_models(sp):
    import job_shop_lib.constraint_programming._ortools_solver as O

    return [(O, "cp_model", stub_namespace())]


NAME_RE = re.compile(r"^(start|end)_.*j=(\d+), p=(\d+)\)$")


def all_histories(desc):
    out = []

    def rec(spec):
        if spec.is_complete():
            out.append(spec)
            return
        for o in spec.ready_ops():
            for m in desc.machines[o]:
                s2 = spec.copy()
                s2.apply(o, m)
                rec(s2)

    rec(Spec(desc))
    return out


class Ctx:
    def __init__(self, eng, sp):
        self.eng, self.sp = eng, sp
        self.desc = None
        self.n_solves = 0
        self.check = True
        self.models = []

    def on_solve(self, model):
        eng, desc = self.eng, self.desc
        self.n_solves += 1
        self.models.append(model)
        eng.user["_solves"] = n = eng.user.get("_solves", 0) + 1
        env = [eng.fresh_int(f"cp{n}_{i}") for i in range(len(model.vars))]
        status = STATUS[self.sp["status"]]
        if not self.check:
            eng.assume(vand(model.eval(env)))
            return env, OPTIMAL
        # which variable is which
        role = {}
        for v in model.vars:
            mt = NAME_RE.match(str(v.name))
            if mt:
                role[(mt.group(1), desc.jobs[int(mt.group(2))][int(mt.group(3))])] = v.idx
            elif str(v.name) == "makespan":
                role["makespan"] = v.idx
        complete_roles = "makespan" in role and all(("start", o) in role and ("end", o) in role for o in range(desc.n_ops)) \
            and len(model.vars) == 2 * desc.n_ops + 1
        hists = all_histories(desc)
        if complete_roles:
            # 1(b): every semi-active schedule (one per dispatch history) satisfies the recorded model
            for h in hists:
                envh = [None] * len(model.vars)
                for o in range(desc.n_ops):
                    envh[role[("start", o)]] = h.start[o]
                    envh[role[("end", o)]] = h.end[o]
                envh[role["makespan"]] = h.makespan()
                eng.prove(vand(model.eval(envh)), "C03/model-rejects-a-feasible-semi-active-schedule",
                          f"history {h.history}")
        else:
            named = "makespan" in role and all(("start", o) in role and ("end", o) in role for o in range(desc.n_ops))
            if named:
                # every operation of this instance has its variables, but the model holds more: left-overs of an earlier solve()
                eng.fail("C03/model-contains-variables-that-do-not-belong-to-the-instance",
                         f"{len(model.vars)} variables for {desc.n_ops} operations")
            else:
                # the variable-to-operation mapping rests on the names the library gives (an encoding matter, not the property)
                raise E.Unsupported("cp_model stub: cannot map the model's variables to operations by name")
        # 1(c): objective is the minimised makespan variable
        if model.obj is None or model.obj[0] != "min" or not isinstance(model.obj[1], Var) or \
                model.obj[1].idx != role.get("makespan"):
            eng.fail("C03/objective-is-not-minimise-makespan")
        # environment contract: the values returned satisfy the recorded model
        M = vand(model.eval(env))
        if eng.mode == "sym" and isinstance(M, E.SBool):
            ok, _ = eng._feasible(M.e)
            if not ok:
                eng.fail("C03/recorded-model-infeasible")
                raise E.PathAbort()
        eng.assume(M)
        if status == OPTIMAL and model.obj is not None and isinstance(model.obj[1], Lin):
            objv = _val(model.obj[1], env)
            for h in hists:
                eng.assume(objv <= h.makespan())
        eng.reachable("post-solve")
        return env, status


def harness(eng, sp):
    import job_shop_lib.constraint_programming._ortools_solver as O
    from job_shop_lib.constraint_programming import ORToolsSolver
    from job_shop_lib.exceptions import NoSolutionFoundError

    if eng.mode == "conc" and eng.values.get("__real__"):
        return real_harness(eng, sp)
    if sp.get("stubcheck"):
        return stubcheck_harness(eng, sp, O)
    stub_active = isinstance(getattr(O.cp_model, "CpModel", None), type) and O.cp_model.CpModel is StubModel
    undo = None
    if not stub_active:  # concrete re-run: the library is un-instrumented, install only the solver stub
        undo = O.cp_model
        O.cp_model = stub_namespace()
    try:
        _stub_harness(eng, sp, ORToolsSolver, NoSolutionFoundError)
    finally:
        if undo is not None:
            O.cp_model = undo


def _stub_harness(eng, sp, ORToolsSolver, NoSolutionFoundError):
    ctx = Ctx(eng, sp)
    eng.user["_solves"] = 0
    StubSolver.ctx = ctx
    inst, desc = D.build_instance(eng, sp["shape"], sp["machines"], dmin=0)
    ctx.desc = desc
    # the documented attribute max_time_in_seconds may be assigned after construction: the solve must run with the current value
    variant = (sum(sp["shape"]) + len(sp["shape"])) % 2
    if variant == 0:
        solver = ORToolsSolver(max_time_in_seconds=3.0)
        solver.max_time_in_seconds = None
        want_limit = None
    else:
        solver = ORToolsSolver()
        solver.max_time_in_seconds = 11.0
        want_limit = 11.0
    if sp["reuse"]:
        # an earlier solve() of a different instance on the same solver object, under a time limit that is lifted afterwards
        from job_shop_lib import JobShopInstance, Operation

        prior = JobShopInstance([[Operation(0, 1), Operation(1, 2)], [Operation(1, 1)], [Operation(0, 3)]], name="prior")
        ctx.check = False
        solver.max_time_in_seconds = 7.0
        solver(prior)
        solver.max_time_in_seconds = want_limit
        ctx.check = True
    want_error = sp["status"] not in ("optimal", "feasible")
    try:
        sched = solver(inst)
    except E.Unsupported:
        raise
    except NoSolutionFoundError:
        if not want_error:
            eng.fail("C03/no-solution-error-although-solver-found-a-solution")
        else:
            eng.prove(True, "C03/no-solution-error")
        eng.observe("err", 1)
        return
    except E.PathAbort:
        raise
    except Exception as ex:
        eng.fail(f"C03/exception-for-status-{sp['status']}/{type(ex).__name__}", f"{ex}"[:300])
        eng.observe("err", type(ex).__name__)
        return
    if want_error:
        eng.fail("C03/schedule-returned-although-no-solution-was-found")
        return
    eng.reachable("state")
    eng.reachable("transition")
    got_limit = getattr(StubSolver.last.parameters, "max_time_in_seconds", None)
    if got_limit != want_limit:
        eng.fail("C03/solve-ignores-the-current-max_time_in_seconds", f"solver ran with {got_limit}, attribute is {want_limit}")
    # layer 3: the model recorded on the reused solver equals the one a fresh solver records
    if sp["reuse"]:
        reused_params = StubSolver.last.parameters
        ctx2 = Ctx(eng, sp)
        ctx2.desc, ctx2.check = desc, False
        StubSolver.ctx = ctx2
        try:
            ORToolsSolver()(inst)
        except E.Unsupported:
            raise
        except Exception:
            pass  # only the recorded model of the fresh solver is needed here
        StubSolver.ctx = ctx
        if ctx.models[-1].log != ctx2.models[-1].log:
            eng.fail("C03/reused-solver-records-a-different-model", f"{ctx.models[-1].log} vs {ctx2.models[-1].log}")
        fresh_params = dict(vars(StubSolver.last.parameters))
        if want_limit is not None:
            fresh_params["max_time_in_seconds"] = want_limit
        if vars(reused_params) != fresh_params:
            eng.fail("C03/reused-solver-runs-with-parameters-of-an-earlier-solve",
                     f"{vars(reused_params)} vs fresh {vars(StubSolver.last.parameters)}")
    check_schedule(eng, desc, inst, sched, sp["status"], all_histories(desc) if sp["status"] == "optimal" else None)


def check_schedule(eng, desc, inst, sched, status, hists, tag=""):
    lists = D.lib_lists(sched)
    problems, conds = feasibility_obligations(desc, lists)
    for key, detail in problems:
        eng.fail(f"C03{tag}/schedule/" + key, detail)
    n = sum(len(l) for l in lists)
    if n != desc.n_ops or not sched.is_complete():
        eng.fail(f"C03{tag}/schedule/incomplete", f"{n} of {desc.n_ops}")
        return
    if sched.instance is not inst:
        eng.fail(f"C03{tag}/schedule/wrong-instance")
    items = [(c, f"C03{tag}/schedule/" + k) for c, k in conds]
    mk = sched.makespan()
    ends = [st + desc.dur[o] for l in lists for (o, st, _) in l]
    items.append((veq(mk, vmax(*ends) if len(ends) > 1 else ends[0]), f"C03{tag}/makespan-method-differs-from-max-end"))
    md = sched.metadata
    if md.get("status") != status or md.get("solved_by") != "ORToolsSolver" or "elapsed_time" not in md:
        eng.fail(f"C03{tag}/metadata-status-or-solved_by", f"{ {k: md.get(k) for k in ('status', 'solved_by')} }")
    if "makespan" not in md:
        eng.fail(f"C03{tag}/metadata-makespan-missing")
    else:
        items.append((veq(md["makespan"], mk), f"C03{tag}/reported-makespan-differs-from-schedule-makespan"))
    if not (md.get("elapsed_time", 0) >= 0):
        eng.fail(f"C03{tag}/negative-elapsed-time", f"{md.get('elapsed_time')}")
    if status == "optimal":
        job_len = [vsum([desc.dur[o] for o in job]) for job in desc.jobs]
        loads = [vsum([desc.dur[o] for o in range(desc.n_ops) if desc.machines[o] == [m]]) for m in range(desc.n_machines)]
        for lb in job_len + loads:
            items.append((mk >= lb, f"C03{tag}/optimal-below-lower-bound"))
        for h in hists or []:
            items.append((mk <= h.makespan(), f"C03{tag}/optimal-worse-than-a-dispatching-schedule"))
    eng.prove_all(items)
    eng.observe("mk", mk)


# ---------------------------------------------------------------------------
# layer 4: the real OR-Tools on solver-produced duration vectors
# ---------------------------------------------------------------------------
def z3_optimum_certificate(desc, durs, mk):
    """unsat of 'exists feasible schedule with makespan <= mk-1' (independent formulation)."""
    s = z3.Solver()
    n = desc.n_ops
    st = [z3.Int(f"s{k}") for k in range(n)]
    for k in range(n):
        s.add(st[k] >= 0, st[k] + durs[k] <= mk - 1)
        if desc.pos_of[k] > 0:
            s.add(st[k] >= st[k - 1] + durs[k - 1])
    for a, b in itertools.combinations(range(n), 2):
        if desc.machines[a] == desc.machines[b]:
            s.add(z3.Or(st[a] + durs[a] <= st[b], st[b] + durs[b] <= st[a]))
    return s.check()


def real_harness(eng, sp):
    from job_shop_lib.constraint_programming import ORToolsSolver
    from job_shop_lib.exceptions import NoSolutionFoundError

    if sp.get("benchmark"):
        from job_shop_lib.benchmarking import load_benchmark_instance

        inst = load_benchmark_instance(sp["benchmark"])
        desc = Desc([len(j) for j in inst.jobs], [list(o.machines) for j in inst.jobs for o in j],
                    [o.duration for j in inst.jobs for o in j])
    else:
        inst, desc = D.build_instance(eng, sp["shape"], sp["machines"], dmin=0)
    solver = ORToolsSolver()
    if sp.get("reuse"):
        from job_shop_lib import JobShopInstance, Operation

        solver(JobShopInstance([[Operation(0, 1), Operation(1, 2)], [Operation(1, 1)], [Operation(0, 3)]], name="prior"))
    try:
        sched = solver(inst)
    except NoSolutionFoundError as ex:
        eng.fail("C03/real/no-solution-error-without-time-limit", str(ex)[:200])
        return
    except Exception as ex:
        eng.fail(f"C03/real/exception/{type(ex).__name__}", str(ex)[:300])
        return
    status = sched.metadata.get("status")
    if status not in ("optimal", "feasible"):
        eng.fail("C03/real/metadata-status", str(status))
        return
    check_schedule(eng, desc, inst, sched, status, all_histories(desc) if status == "optimal" and desc.n_ops <= 6 else None,
                   tag="/real")
    if status == "optimal":
        mk = sched.makespan()
        # z3 certificate of optimality for instances it can decide quickly; larger benchmark instances are compared with the
        # recorded optimum and bounds only
        r = z3_optimum_certificate(desc, desc.dur, mk) if desc.n_ops <= 36 else "unsat"
        if sp.get("benchmark"):
            lb, ub = inst.metadata.get("lower_bound"), inst.metadata.get("upper_bound")
            if (lb is not None and mk < lb) or (ub is not None and mk > ub):
                eng.fail("C03/real/optimal-outside-recorded-benchmark-bounds", f"{mk} not in [{lb},{ub}]")
        if str(r) != "unsat":
            eng.fail("C03/real/reported-optimal-but-a-shorter-feasible-schedule-exists", f"makespan {mk}, z3: {r}")
        if sp.get("benchmark"):
            opt = inst.metadata.get("optimum")
            if opt is not None and mk != opt:
                eng.fail("C03/real/optimal-differs-from-recorded-benchmark-optimum", f"{mk} vs {opt}")


def stubcheck_harness(eng, sp, O):
    """Validation of the stub's reading of cp_model: for every duration vector in {0,1,2}^n the set of ALL solutions of the model
    built by the real library in the real CP-SAT (objective removed, enumerate_all_solutions) equals the set of all
    solutions of the model recorded by the stub (z3 AllSAT)."""
    import itertools as it
    from ortools.sat.python import cp_model as real_cp
    from job_shop_lib import JobShopInstance, Operation
    from job_shop_lib.constraint_programming import ORToolsSolver

    shape, machines = sp["shape"], sp["machines"]
    n = sum(shape)
    eng.reachable("state")
    eng.reachable("transition")
    stub_ns = O.cp_model if getattr(O.cp_model, "CpModel", None) is StubModel else stub_namespace()
    for durs in it.product((0, 1, 2), repeat=n):
        def mk():
            k = 0
            jobs = []
            for ln in shape:
                jobs.append([Operation(machines[k + i][0], durs[k + i]) for i in range(ln)])
                k += ln
            return JobShopInstance(jobs)
        # real side
        saved = O.cp_model
        O.cp_model = real_cp
        try:
            solver = ORToolsSolver()
            solver.solve(mk())
            model = solver.model
            model.ClearObjective()
            nvars = len(model.Proto().variables)
            vars_ = [model.GetIntVarFromProtoIndex(i) for i in range(nvars)]

            class CB(real_cp.CpSolverSolutionCallback):
                def __init__(self):
                    super().__init__()
                    self.sols = set()

                def on_solution_callback(self):
                    self.sols.add(tuple(self.Value(v) for v in vars_))

            cb = CB()
            cp = real_cp.CpSolver()
            cp.parameters.enumerate_all_solutions = True
            cp.Solve(model, cb)
            real_sols = cb.sols
        except Exception as ex:
            eng.fail(f"C03/stub-validation/real-side-raises-{type(ex).__name__}", f"{durs}: {ex}"[:200])
            O.cp_model = saved
            continue
        # stub side
        O.cp_model = stub_ns
        rec = {}

        class Ctx2:
            def on_solve(self, m):
                rec["model"] = m
                raise _Stop()

        StubSolver.ctx = Ctx2()
        try:
            ORToolsSolver().solve(mk())
        except _Stop:
            pass
        finally:
            O.cp_model = saved
        m = rec["model"]
        zs = z3.Solver()
        zv = [z3.Int(f"v{i}") for i in range(len(m.vars))]
        e2 = E.Engine()
        env = [E.SInt(e2, v) for v in zv]
        cons = vand(m.eval(env))
        zs.add(cons.e if isinstance(cons, E.SBool) else z3.BoolVal(bool(cons)))
        stub_sols = set()
        while zs.check() == z3.sat and len(stub_sols) < 20000:
            mod = zs.model()
            t = tuple(mod.eval(v, model_completion=True).as_long() for v in zv)
            stub_sols.add(t)
            zs.add(z3.Or([v != x for v, x in zip(zv, t)]))
        if len(m.vars) != nvars or real_sols != stub_sols:
            eng.fail("C03/stub-validation/solution-sets-differ",
                     f"durations {durs}: real {len(real_sols)} solutions, stub {len(stub_sols)}; only-real {sorted(real_sols - stub_sols)[:2]} only-stub {sorted(stub_sols - real_sols)[:2]}")
        else:
            eng.prove(True, "C03/stub-validation/solution-sets-differ")
    eng.observe("n", n)


class _Stop(Exception):
    pass


def finalize(eng, sp):
    """Run the real solver on the duration vectors the symbolic exploration produced."""
    if sp.get("stubcheck"):
        return
    seen = eng.user.get("durs", set())
    n = sum(sp["shape"])
    if sp.get("benchmark"):
        seen = {()}
    from .. import models

    for dv in sorted(seen)[: (12 if not sp.get('all_real') else None)]:
        vals = {f"d{k}": dv[k] for k in range(len(dv))}
        vals["__real__"] = 1
        ce = E.Engine("conc", values=vals, choices=[])
        with models.suspended():
            ce.run_concrete(lambda e: harness(e, sp))
        eng.stats["obligations"] += ce.stats["obligations"]
        eng.stats["proved_trivial"] += ce.stats["obligations"] - len(ce.violations)
        eng.stats.setdefault("reached", {})
        eng.stats["reached"]["real-ortools-runs"] = eng.stats["reached"].get("real-ortools-runs", 0) + 1
        for v in ce.violations:
            eng.violations.append(E.Violation(v.key, v.detail, vals, []))


def configure_engine(eng, sp):
    def on_end(e, prev=None):
        vals = e.model_values()
        n = sum(sp["shape"])
        if all(f"d{k}" in vals for k in range(n)):
            e.user.setdefault("durs", set()).add(tuple(vals[f"d{k}"] for k in range(n)))
    eng.user["on_end"] = on_end


def big_models(sp):
    # solver-chosen large models (>= 2**24+1) of the path conditions, run on the un-instrumented library
    return True
