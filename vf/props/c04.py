"""C04 — dispatching-rule solvers always finish and follow their rule."""
from __future__ import annotations

import types

from .. import drivers as D
from .. import engine as E
from .. import models
from ..spec import Spec, feasibility_obligations, vand, vor, veq, vsum, vcount
from . import common as C

ID = "C04"
ASSUMPTIONS = [
    "durations are arbitrary integers >= 0 without filter and with filters (the rule criteria do not depend on positivity)",
    "random.choice is an exhaustive non-deterministic choice, random.randint(a,b) an arbitrary integer in [a,b]; time.perf_counter returns "
    "arbitrary non-decreasing reals (documented contract of a monotonic clock)",
    "criteria: SPT minimal duration; FCFS minimal position in job; MWKR maximal sum of durations of the job's unscheduled operations; "
    "MOR maximal number of remaining operations of the job, where 'remaining' may be read as unscheduled or as unscheduled+ongoing "
    "(selected must be best under one of the two readings); scores of composed rules are the ones the rule actually received "
    "(scoring functions wrapped by recorders)",
    "wide sub-spaces: 10 jobs (job ids up to 9), every pair of jobs with 3 operations and the rest with 1, TWO shared symbolic durations "
    "(long jobs' operations / short jobs' operations) - ties everywhere, the orderings of k*a vs b are the paths",
    "in the sub-spaces with an odd (operations + jobs) count the solver is an instance of a user-defined subclass of DispatchingRuleSolver "
    "(the recorded name must be the subclass's)",
    "warm/preobs sub-spaces call solve(instance, dispatcher) with a caller-supplied dispatcher that is already partly dispatched (every "
    "prefix) or already carries IsReady/Duration observers restricted to operation features",
    "available operations are taken from the dispatcher (their correctness is C05/C07); the rule is wrapped by a checking callable and "
    "passed to the real DispatchingRuleSolver, which is run through BaseSolver.__call__",
]
STUBS = ["max", "min", "int (dispatcher module only)", "np facade", "random (rules, machine chooser)", "time.perf_counter (_base_solver)"]
BUDGET = {"quick": 540, "thorough": 3300}

NAMED = ["shortest_processing_time", "first_come_first_served", "most_work_remaining", "most_operations_remaining", "random"]
SCORES = ["shortest_processing_time_score", "first_come_first_served_score", "most_work_remaining_score",
          "most_operations_remaining_score", "random_score"]


def bounds(tier):
    if tier == "quick":
        return ("5 named rules + observer-based MWKR: ordered shapes <=3 jobs <=4 ops (5 single-score rules: <=3 ops and (2,2)), all assignments M<=2, filters "
                "{none, default pair}, chooser first; flexible M<=2 on <=3 ops with choosers {first, random}; 20 ordered score pairs with "
                "tie-breaking on shapes <=3 ops and (2,2) M<=2, filters {none, default pair}; wide: 10 jobs, 45 pairs of 3-operation jobs, 2 shared "
                "symbolic durations, MWKR direct+observer-based")
    return "quick + all rules x 7 filter settings on <=4 ops; tie-breaker pairs on 4 ops; named rules on 5 ops M<=3 up to renaming"


def rule_configs(pairs=True):
    cfgs = [("named", r) for r in NAMED] + [("observer_mwkr", None)] + [("score", s) for s in SCORES]
    if pairs:
        cfgs += [("tie", [a, b]) for a in SCORES for b in SCORES if a != b]
    return cfgs


def subspaces(tier):
    out = []
    s4, s3 = D.shapes(3, 4), D.shapes(3, 3)
    filters = ["none", "default_pair"] if tier == "quick" else ["none", "default_pair", "dominated", "non_idle",
                                                                   "non_immediate_machines", "non_immediate_ops",
                                                                   ["non_idle_machines", "dominated_operations", "non_immediate_operations"]]
    for f in filters:
        for kind, r in rule_configs(pairs=False):
            out += C.structure_subspaces(s4 if (kind != "score" or tier != "quick") else s3 + [(2, 2)], 2, False,
                                         rule=[kind, r], chooser="first", filter=f)
            for ch in ("first", "random"):
                out += C.structure_subspaces(s3, 2, True, only_flexible=True, rule=[kind, r], chooser=ch, filter=f)
    for kind, r in (("named", "most_work_remaining"), ("observer_mwkr", None), ("named", "shortest_processing_time"),
                    ("tie", ["most_operations_remaining_score", "shortest_processing_time_score"])):
        out += C.structure_subspaces(s3 + [(2, 2)], 2, False, canonical=True, rule=[kind, r], chooser="first", filter="default_pair", warm=True)
        out += C.structure_subspaces(s3 + [(2, 2)], 2, False, canonical=True, rule=[kind, r], chooser="first", filter="none", preobs=True)
    out += wide_subspaces(tier)
    tie_shapes = s3 + [(2, 2)] if tier == "quick" else s4
    for f in filters[:2]:
        for kind, r in rule_configs():
            if kind == "tie":
                out += C.structure_subspaces(tie_shapes, 2, False, rule=[kind, r], chooser="first", filter=f)
    if tier == "thorough":
        s5 = [s for s in D.shapes(3, 5) if sum(s) == 5]
        for r in NAMED[:4]:
            out += C.structure_subspaces(s5, 3, False, canonical=True, rule=["named", r], chooser="first", filter="default_pair")
    return out


def wide_subspaces(tier):
    """Wide instances (10 jobs, so job ids >= 8 occur): jobs i<j have 3 operations, the others 1; two shared symbolic
    durations (one for the long jobs' operations, one for the short ones), so ties are everywhere and paths few."""
    out = []
    rules = [("named", "most_work_remaining"), ("observer_mwkr", None)]
    if tier == "thorough":
        rules += [("named", r) for r in NAMED[:2] + NAMED[3:4]] + [("tie", ["most_operations_remaining_score", "most_work_remaining_score"])]
    for i in range(10):
        for j in range(i + 1, 10):
            shape = [3 if x in (i, j) else 1 for x in range(10)]
            machines, share = [], []
            for x, n in enumerate(shape):
                for p_ in range(n):
                    machines.append([p_ % 2])
                    share.append(0 if n == 3 else 1)
            for kind, r in rules:
                out.append(dict(shape=shape, machines=machines, share=share, rule=[kind, r], chooser="first", filter="none"))
    return out


def cost(sp):
    if sp.get("share"):
        return 64
    n = sum(sp["shape"])
    return (2 ** n) * (3 if sp["rule"][0] == "tie" else 1)


def extra_models(sp):
    import job_shop_lib._base_solver as B
    import job_shop_lib.dispatching.rules._dispatching_rules_functions as R
    import job_shop_lib.dispatching.rules._machine_chooser_factory as M

    return models.numpy_facade_models() + [(R, "random", RandomModel), (M, "random", RandomModel), (B, "time", ClockModel)]


class _Random:
    eng = None
    n = 0

    def choice(self, seq):
        seq = list(seq)
        return seq[_Random.eng.choice(len(seq), "random.choice")]

    def randint(self, a, b):
        _Random.n += 1
        return _Random.eng.fresh_int(f"rnd{_Random.n}", a, b)


class _Clock:
    eng = None
    n = 0
    last = None

    def perf_counter(self):
        _Clock.n += 1
        t = _Clock.eng.fresh_int(f"clock{_Clock.n}", 0, real=True)
        if _Clock.last is not None:
            _Clock.eng.assume(t >= _Clock.last)
        _Clock.last = t
        return t


RandomModel, ClockModel = _Random(), _Clock()


def get_rule(kind, r, recorder):
    import job_shop_lib.dispatching.rules as R
    from job_shop_lib.dispatching.rules import dispatching_rule_factory

    def wrap_score(name):
        fn = getattr(R, name) if name != "most_work_remaining_score" else R.MostWorkRemainingScorer()

        def scored(dispatcher):
            s = fn(dispatcher)
            recorder.append((name, list(s)))
            return s

        return scored

    if kind == "named":
        return dispatching_rule_factory(r)
    if kind == "observer_mwkr":
        return R.observer_based_most_work_remaining_rule
    if kind == "score":
        return R.score_based_rule(wrap_score(r))
    return R.score_based_rule_with_tie_breaker([wrap_score(x) for x in r])


def harness(eng, sp):
    import job_shop_lib._base_solver as B
    import job_shop_lib.dispatching.rules._dispatching_rules_functions as RF
    import job_shop_lib.dispatching.rules._machine_chooser_factory as MF
    from job_shop_lib.dispatching import Dispatcher
    from job_shop_lib.dispatching.rules import DispatchingRuleSolver, machine_chooser_factory
    import job_shop_lib.dispatching.rules as R

    _Random.eng = _Clock.eng = eng
    _Random.n = _Clock.n = 0
    _Clock.last = None
    undo = []
    if eng.mode == "conc":   # concrete re-run: only the environment (RNG, clock) is scripted
        for mod, name, val in ((RF, "random", RandomModel), (MF, "random", RandomModel), (B, "time", ClockModel)):
            undo.append((mod, name, getattr(mod, name)))
            setattr(mod, name, val)
    try:
        _harness(eng, sp, Dispatcher, DispatchingRuleSolver, machine_chooser_factory, R)
    finally:
        for mod, name, val in undo:
            setattr(mod, name, val)


def _harness(eng, sp, Dispatcher, DispatchingRuleSolver, machine_chooser_factory, R):
    inst, desc = D.build_instance(eng, sp["shape"], sp["machines"], dmin=0, share=sp.get("share"))
    kind, r = sp["rule"]
    recorder = []
    rule = get_rule(kind, r, recorder)
    chooser = machine_chooser_factory(sp["chooser"])
    filt = C.make_filter(sp["filter"])
    spec = Spec(desc)
    state = dict(calls=0, twin=None, failed=False)
    tag = f"{kind}:{r if isinstance(r, str) else '+'.join(r) if r else 'observer_mwkr'}"
    if kind == "named" and r == "most_work_remaining":
        state["twin"] = Dispatcher(inst, ready_operations_filter=C.make_filter(sp["filter"]))

    def checked_rule(dispatcher):
        state["calls"] += 1
        if state["calls"] > desc.n_ops:
            eng.fail(f"C04/{tag}/does-not-terminate", f"{state['calls']} steps for {desc.n_ops} operations")
            raise E.PathAbort()
        del recorder[:]
        avail = [o.operation_id for o in dispatcher.available_operations()]
        if not avail:
            eng.fail(f"C04/{tag}/no-available-operation-before-completion", f"after {spec.history}")
            raise E.PathAbort()
        try:
            sel = rule(dispatcher)
        except E.Unsupported:
            raise
        except Exception as ex:
            eng.fail(f"C04/{tag}/rule-raises-{type(ex).__name__}", f"{ex} after {spec.history}"[:300])
            raise E.PathAbort()
        sid = sel.operation_id
        eng.reachable("state")
        if sid not in avail or sel is not D.op_by_id(inst, sid):
            eng.fail(f"C04/{tag}/selected-operation-not-available", f"{sid} not in {avail}")
            raise E.PathAbort()
        check_choice(eng, desc, spec, dispatcher, kind, r, sid, avail, recorder, tag)
        if state["twin"] is not None:
            other = R.observer_based_most_work_remaining_rule(state["twin"])
            if other.operation_id != sid:
                eng.fail("C04/direct-and-observer-based-most-work-remaining-differ", f"{sid} vs {other.operation_id} after {spec.history}")
        return sel

    def checked_chooser(dispatcher, operation):
        m = chooser(dispatcher, operation)
        if m not in desc.machines[operation.operation_id]:
            eng.fail(f"C04/chooser-{sp['chooser']}/ineligible-machine", f"{m}")
            raise E.PathAbort()
        spec.apply(operation.operation_id, m)
        eng.reachable("transition")
        if state["twin"] is not None:
            state["twin"].dispatch(operation, m)
        return m

    # "the solver's class name": every other sub-space runs a user-defined subclass of the solver
    sub = (sum(sp["shape"]) + len(sp["shape"])) % 2 == 1
    cls = type("MyRuleSolver", (DispatchingRuleSolver,), {}) if sub else DispatchingRuleSolver
    solver = cls(dispatching_rule=checked_rule, machine_chooser=checked_chooser, ready_operations_filter=filt)
    given = None
    if sp.get("warm") or sp.get("preobs"):
        # solve(instance, dispatcher) with a dispatcher supplied by the caller: already partly dispatched (warm) and/or already
        # carrying observers of the kinds the observer-based rule looks for, with other feature types
        from job_shop_lib.dispatching.feature_observers import IsReadyObserver, DurationObserver, FeatureType

        given = Dispatcher(inst, ready_operations_filter=C.make_filter(sp["filter"]))
        targets = [given] + ([state["twin"]] if state["twin"] is not None else [])
        if sp.get("preobs"):
            for d_ in targets:
                IsReadyObserver(d_, feature_types=[FeatureType.OPERATIONS])
                DurationObserver(d_, feature_types=[FeatureType.OPERATIONS])
        if sp.get("warm"):
            for _ in range(eng.choice(desc.n_ops, "warm-start-length")):
                op, m = D.choose_dispatch(eng, desc, spec)
                for d_ in targets:
                    d_.dispatch(D.op_by_id(inst, op), m)
                spec.apply(op, m)
            state["calls"] = len(spec.history)
    try:
        sched = solver(inst) if given is None else solver.solve(inst, given)
    except E.Unsupported:
        raise
    except E.PathAbort:
        raise
    except Exception as ex:
        eng.fail(f"C04/{tag}/solver-raises-{type(ex).__name__}", f"{ex}"[:300])
        return
    lists = D.lib_lists(sched)
    problems, conds = feasibility_obligations(desc, lists)
    for key, detail in problems:
        eng.fail(f"C04/{tag}/schedule/" + key, detail)
    if not sched.is_complete() or sum(len(l) for l in lists) != desc.n_ops:
        eng.fail(f"C04/{tag}/schedule-incomplete")
    items = [(c, f"C04/{tag}/schedule/" + k) for c, k in conds]
    md = sched.metadata
    if given is not None:
        eng.prove_all(items)
        eng.observe("mk", sched.makespan())
        return
    if md.get("solved_by") != cls.__name__:
        eng.fail("C04/metadata-solved_by", f"{md.get('solved_by')} for a solver of class {cls.__name__}")
    if "elapsed_time" not in md:
        eng.fail("C04/metadata-elapsed_time-missing")
    else:
        items.append((md["elapsed_time"] >= 0, "C04/negative-elapsed-time"))
    eng.prove_all(items)
    eng.observe("mk", sched.makespan())
    eng.observe("hist", spec.history)


def check_choice(eng, desc, spec, dispatcher, kind, r, sid, avail, recorder, tag):
    job = desc.job_of
    key = f"C04/{tag}/selected-operation-not-best"
    if kind == "named" and r == "random":
        return
    if kind in ("named", "observer_mwkr"):
        name = r or "most_work_remaining"
        if name == "shortest_processing_time":
            eng.prove(vand([desc.dur[sid] <= desc.dur[o] for o in avail]), key)
        elif name == "first_come_first_served":
            if any(desc.pos_of[sid] > desc.pos_of[o] for o in avail):
                eng.fail(key, f"{sid} among {avail}")
            else:
                eng.prove(True, key)
        elif name == "most_work_remaining":
            work = {j: vsum([desc.dur[o] for o in desc.jobs[j] if o not in spec.start]) for j in range(desc.n_jobs)}
            eng.prove(vand([work[job[sid]] >= work[job[o]] for o in avail]), key)
        elif name == "most_operations_remaining":
            now = spec.now([o for o in avail])
            a = {j: sum(1 for o in desc.jobs[j] if o not in spec.start) for j in range(desc.n_jobs)}
            b = {j: a[j] + vcount([spec.end[o] > now for o in desc.jobs[j] if o in spec.start]) for j in range(desc.n_jobs)}
            best_a = all(a[job[sid]] >= a[job[o]] for o in avail)
            best_b = vand([b[job[sid]] >= b[job[o]] for o in avail])
            eng.prove(vor(best_a, best_b), key)
        return
    # composed rules: lexicographically best under the scores the rule received
    names = [r] if kind == "score" else list(r)
    seen = [rec for rec in recorder]
    if not seen or seen[0][0] != names[0]:
        eng.fail(f"C04/{tag}/scoring-function-not-consulted", f"{[n for n, _ in seen]}")
        return
    vecs = {}
    for o in avail:
        vecs[o] = [s[job[o]] for _, s in seen]
    conds = []
    for o in avail:
        if o == sid:
            continue
        # selected >=lex o, on the score vectors actually consulted
        lex = True
        for i in reversed(range(len(seen))):
            gt = vecs[sid][i] > vecs[o][i]
            eq = veq(vecs[sid][i], vecs[o][i])
            lex = vor(gt, vand(eq, lex))
        conds.append(lex)
    if len(seen) < len(names) and len(avail) > 1:
        # later scoring functions may be skipped only when the earlier ones already decide strictly
        for o in avail:
            if o != sid:
                strict = False
                for i in reversed(range(len(seen))):
                    strict = vor(vecs[sid][i] > vecs[o][i], vand(veq(vecs[sid][i], vecs[o][i]), strict))
                conds.append(strict)
    eng.prove(vand(conds) if conds else True, key)


def big_models(sp):
    # solver-chosen large models (>= 2**24+1), run on the un-instrumented library; not for the rules that read the float32 job
    # features of DurationObserver (most work remaining, direct-vs-observer twin): float32 rounding of features is outside the claim
    kind, r = sp["rule"]
    names = [r] if isinstance(r, str) else list(r or ["most_work_remaining"])
    return not any("most_work_remaining" in n for n in names) and not sp.get("preobs")
