"""C05 — state queries agree with the schedule, whatever was asked before."""
from __future__ import annotations

from .. import drivers as D
from .. import models
from ..spec import Spec, vand, veq, vnot
from . import common as C

ID = "C05"
ASSUMPTIONS = [
    "durations are arbitrary integers >= 0 (z3 Int); without filter available = ready; in the filtered sub-spaces 'available' is what "
    "the real filter keeps of a pristine ready list on a replica (filter correctness is C07) and the current time is the minimum start "
    "over it; all other queries keep their filter-independent meaning",
    "query sequences: every single query, every ordered pair of the 16 queries issued on a dispatcher that reached the "
    "state by replaying the history (quick, thorough), every pair split across a dispatch and every ordered triple on the "
    "smaller shapes (thorough); plus all queries in every earlier state of the main dispatcher (staleness)",
    "reset mode: a first episode of every length with all queries asked in every state, then Dispatcher.reset(), then every history with all queries in every state",
    "observed mode: one of every observer the library ships (history, unscheduled-operations, 7 feature observers + composite, 2 reward "
    "observers, residual graph updater) is subscribed to the dispatcher; all queries in every state (numpy facade: float32 rounding outside)",
    "bystander mode: a second dispatcher on the same instance object carrying one of every library observer (one step ahead, own history, "
    "queried, reset when complete) and a dispatcher on another instance with the same name move before and after every dispatch",
    "in every state an UnscheduledOperationsObserver created only then (late subscription) must report the same view",
    "collections are compared as sets of operation ids plus 'no duplicates'; order is not demanded",
    "is_ongoing/remaining_duration are not among the queries named by the property and are not checked",
]
STUBS = ["max", "min", "int (dispatcher module only)", "np facade (observed mode)"]
BUDGET = {"quick": 480, "thorough": 3000}

QUERIES = ["current_time", "available_operations", "raw_ready_operations", "unscheduled_operations",
           "scheduled_operations", "available_machines", "available_jobs", "completed_operations",
           "uncompleted_operations", "ongoing_operations", "earliest_start_time", "next_operation",
           "is_scheduled", "observer_view", "min_start_time", "start_time"]


def bounds(tier):
    return _bounds(tier) + "; observed: all library observers subscribed, all 16 queries in every state, shapes <=3 ops and (2,2) M<=2 (thorough: <=4 ops)"


def _bounds(tier):
    if tier == "quick":
        return ("ordered shapes <=3 jobs and <=3 operations plus (2,2): every machine assignment M<=2 (non-flexible), "
                "every flexible structure M<=2 on <=2 operations; all interleavings x machine choices; in every state all "
                "16x16 ordered query pairs; durations Z>=0")
    return ("ordered shapes <=3 jobs <=4 operations M<=2 non-flexible and flexible <=3 operations with all pairs and all "
            "pairs split across a dispatch; all 16^3 triples on shapes with <=3 operations (M<=2, non-flexible)")


def subspaces(tier):
    out = []
    if tier == "quick":
        out += C.structure_subspaces(D.shapes(3, 3) + [(2, 2)], 2, False, mode="pairs")
        out += C.structure_subspaces(D.shapes(2, 2), 2, True, only_flexible=True, mode="pairs")
        out += C.structure_subspaces(D.shapes(2, 3), 2, False, mode="reset")
        out += C.structure_subspaces(D.shapes(3, 3) + [(2, 2)], 2, False, mode="observed")
        out += C.structure_subspaces(D.shapes(3, 3) + [(2, 2)], 2, False, canonical=True, mode="bystander")
        out += C.structure_subspaces(D.shapes(3, 3), 2, False, canonical=True, mode="bystander", filter="default_pair")
        out += C.wide_subspaces(mode="observed", pairs=((1, 8), (4, 5))) + C.tall_subspaces(mode="observed")
        for f in ("dominated", "non_idle", "non_immediate_machines", "non_immediate_ops"):
            out += C.structure_subspaces(D.shapes(3, 3), 2, False, canonical=True, mode="pairs", filter=f)
    else:
        for f in ("dominated", "non_idle", "non_immediate_machines", "non_immediate_ops", "default_pair"):
            out += C.structure_subspaces(D.shapes(3, 3) + [(2, 2)], 2, False, mode="pairs", filter=f)
            out += C.structure_subspaces(D.shapes(2, 2), 2, True, only_flexible=True, mode="pairs", filter=f)
        out += C.structure_subspaces(D.shapes(3, 4), 2, False, mode="reset")
        out += C.structure_subspaces(D.shapes(3, 4), 2, False, mode="observed")
        out += C.structure_subspaces(D.shapes(3, 4), 2, False, mode="bystander")
        out += C.structure_subspaces(D.shapes(3, 3), 2, False, mode="bystander", filter="default_pair")
        out += C.structure_subspaces(D.shapes(2, 2), 2, True, only_flexible=True, mode="bystander")
        out += C.wide_subspaces(mode="observed") + C.tall_subspaces(mode="observed")
        out += C.structure_subspaces(D.shapes(3, 3), 2, False, mode="observed", filter="default_pair")
        out += C.structure_subspaces(D.shapes(3, 4), 2, False, mode="pairs")
        out += C.structure_subspaces(D.shapes(3, 3), 2, True, only_flexible=True, mode="pairs")
        out += C.structure_subspaces(D.shapes(3, 4), 2, False, mode="split")
        out += C.structure_subspaces(D.shapes(3, 3), 2, False, mode="triples")
    return out


def cost(sp):
    return C.cost(sp) * {"pairs": 1, "split": 1, "triples": 14, "reset": 0.2, "observed": 0.2, "bystander": 0.2}[sp["mode"]]


# ---------------------------------------------------------------------------
def _ids(ops):
    return [o.operation_id for o in ops]


def ask(q, disp, obs, inst, desc, spec):
    """Issue query q through the public API; returns a raw result."""
    if q == "earliest_start_time":
        return [(o, disp.earliest_start_time(D.op_by_id(inst, o))) for o in spec.ready_ops()]
    if q == "next_operation":
        from job_shop_lib.exceptions import ValidationError

        res = []
        for j in range(desc.n_jobs):
            try:
                res.append(disp.next_operation(j).operation_id)
            except ValidationError:
                res.append(None)
        return res
    if q == "is_scheduled":
        return [bool(disp.is_scheduled(D.op_by_id(inst, o))) for o in range(desc.n_ops)]
    if q == "min_start_time":
        ready = spec.ready_ops()
        subs = [[o] for o in ready] + ([ready] if len(ready) > 1 else [])
        subs.reverse()
        return [(L, disp.min_start_time([D.op_by_id(inst, o) for o in L])) for L in subs]
    if q == "start_time":
        return [(o, m, disp.start_time(D.op_by_id(inst, o), m)) for o in reversed(spec.ready_ops())
                for m in reversed(desc.machines[o])]
    if q == "observer_view":
        return (_ids(list(obs.unscheduled_operations)), obs.num_unscheduled_operations,
                [_ids(list(dq)) for dq in obs.unscheduled_operations_per_job])
    return getattr(disp, q)()


def check(eng, q, res, desc, spec, ctx):
    """Compare a result with the independent recomputation. ctx = key prefix."""
    key = f"C05/{q}/{ctx}"
    sched, unsched, ready = spec.scheduled_ops(), spec.unscheduled_ops(), spec.ready_ops()
    avail = spec.available() if hasattr(spec, "available") else ready
    now = spec.min_start(avail)

    def set_eq(ids, expected, what):
        if len(set(ids)) != len(ids):
            eng.fail(key + "/duplicates", f"{ids}")
        elif set(ids) != set(expected):
            eng.fail(key + "/" + what, f"got {sorted(ids)} expected {sorted(expected)}")
        else:
            eng.prove(True, key)

    if q == "current_time":
        eng.prove(veq(res, now), key)
    elif q == "available_operations":
        set_eq(_ids(res), avail, "wrong-set")
    elif q == "raw_ready_operations":
        set_eq(_ids(res), ready, "wrong-set")
    elif q == "unscheduled_operations":
        set_eq(_ids(res), unsched, "wrong-set")
    elif q == "scheduled_operations":
        set_eq(_ids(res), sched, "wrong-set")
    elif q == "available_machines":
        set_eq(list(res), sorted({m for o in avail for m in desc.machines[o]}), "wrong-set")
    elif q == "available_jobs":
        set_eq(list(res), sorted({desc.job_of[o] for o in avail}), "wrong-set")
    elif q in ("completed_operations", "uncompleted_operations", "ongoing_operations"):
        if q == "ongoing_operations":
            ids = [s.operation.operation_id for s in res]
            starts = {s.operation.operation_id: (s.start_time, s.machine_id) for s in res}
        else:
            ids = _ids(list(res))
            starts = {}
        if len(set(ids)) != len(ids):
            eng.fail(key + "/duplicates", f"{ids}")
            return
        conds = []
        for o in ids:
            if o in unsched:
                if q != "uncompleted_operations":
                    eng.fail(key + "/contains-unscheduled-operation", f"op {o}")
                    return
            elif o not in sched:
                eng.fail(key + "/foreign-operation", f"op {o}")
                return
        if q == "uncompleted_operations" and not set(unsched) <= set(ids):
            eng.fail(key + "/misses-unscheduled-operation", f"got {sorted(ids)} unscheduled {unsched}")
            return
        for o in sched:
            ongoing = spec.end[o] > now
            want_in = vnot(ongoing) if q == "completed_operations" else ongoing
            conds.append(want_in if o in ids else vnot(want_in))
            if o in starts:
                conds.append(veq(starts[o][0], spec.start[o]))
                if starts[o][1] != spec.machine_of[o]:
                    eng.fail(key + "/wrong-machine", f"op {o}")
        eng.prove(vand(conds) if conds else True, key + "/membership")
    elif q == "earliest_start_time":
        eng.prove(vand([veq(v, spec.earliest_start(o)) for o, v in res]) if res else True, key)
    elif q == "next_operation":
        exp = [desc.jobs[j][spec.next_idx[j]] if spec.next_idx[j] < len(desc.jobs[j]) else None
               for j in range(desc.n_jobs)]
        if res != exp:
            eng.fail(key, f"got {res} expected {exp}")
        else:
            eng.prove(True, key)
    elif q == "is_scheduled":
        exp = [o in spec.start for o in range(desc.n_ops)]
        if res != exp:
            eng.fail(key, f"got {res} expected {exp}")
        else:
            eng.prove(True, key)
    elif q == "min_start_time":
        eng.prove(vand([veq(v, spec.min_start(L)) for L, v in res]) if res else True, key)
    elif q == "start_time":
        eng.prove(vand([veq(v, spec.forced_start(o, m)) for o, m, v in res]) if res else True, key)
    elif q == "observer_view":
        ids, num, per_job = res
        exp_per_job = [[o for o in job if o not in spec.start] for job in desc.jobs]
        if len(set(ids)) != len(ids) or set(ids) != set(unsched) or num != len(unsched) or per_job != exp_per_job:
            eng.fail(key, f"got {res} expected {unsched}")
        else:
            eng.prove(True, key)


def replica(inst, spec, filt=None):
    """A dispatcher brought to the current state through the public API only."""
    from job_shop_lib.dispatching import Dispatcher, UnscheduledOperationsObserver

    d = Dispatcher(inst, ready_operations_filter=C.make_filter(filt) if filt else None)
    obs = UnscheduledOperationsObserver(d)
    for op, m in spec.history:
        d.dispatch(D.op_by_id(inst, op), m)
    return d, obs


def _safe(eng, q, ctx, fn):
    try:
        return True, fn()
    except D.E.Unsupported:
        raise
    except Exception as ex:
        eng.fail(f"C05/{q}/{ctx}/exception", f"{type(ex).__name__}: {ex}")
        return False, None


def extra_models(sp):
    return models.numpy_facade_models(include_rl=True) if sp["mode"] in ("observed", "bystander") else []


def harness(eng, sp):
    from job_shop_lib.dispatching import Dispatcher, UnscheduledOperationsObserver

    inst, desc = D.build_instance(eng, sp["shape"], sp["machines"], dmin=0)
    filt = sp.get("filter")
    main = Dispatcher(inst, ready_operations_filter=C.make_filter(filt) if filt else None)
    main_obs = UnscheduledOperationsObserver(main)
    if sp["mode"] == "observed":
        # one of every observer the library ships is subscribed: none of them may disturb what the dispatcher reports
        C.attach_library_observers(main, inst, "atj")
    by = C.Bystander(inst, observers=True) if sp["mode"] == "bystander" else None
    spec = Spec(desc)
    if filt:
        # with a filter installed 'available' is what the real filter keeps of a pristine ready list on a replica
        # (filter correctness is C07); every other query keeps its filter-independent meaning
        def avail_of(sp_):
            rep, _ = replica(inst, sp_, None)
            f = C.make_filter(filt)
            return [o.operation_id for o in f(rep, [D.op_by_id(inst, o) for o in sp_.ready_ops()])]

        cache = {}

        def available():
            k = len(spec.history)
            if k not in cache:
                cache[k] = avail_of(spec)
            return cache[k]

        spec.available = available
    mode = sp["mode"]
    nq = len(QUERIES)
    prev_spec = None
    if mode == "reset":
        # an earlier episode of chosen length, then reset(); answers must not reflect it
        n1 = 1 + eng.choice(desc.n_ops, "first-episode-length")
        s1 = Spec(desc)
        for _ in range(n1):
            for q in QUERIES:
                _safe(eng, q, "first-episode", lambda: ask(q, main, main_obs, inst, desc, s1))
            op, m = D.choose_dispatch(eng, desc, s1)
            main.dispatch(D.op_by_id(inst, op), m)
            s1.apply(op, m)
        for q in QUERIES:
            _safe(eng, q, "first-episode", lambda: ask(q, main, main_obs, inst, desc, s1))
        main.reset()
    for k in range(desc.n_ops + 1):
        eng.reachable("state")
        # (1) main dispatcher: all queries in a rotating order (stale answers from earlier states show here)
        for i in range(nq):
            q = QUERIES[(i + k) % nq]
            ok, res = _safe(eng, q, "main", lambda: ask(q, main, main_obs, inst, desc, spec))
            if ok:
                check(eng, q, res, desc, spec, "after-all-queries-in-earlier-states" if mode != "reset"
                      else "after-reset")
        # (1b) an UnscheduledOperationsObserver created late (after the dispatches) must see the same state
        d_late = Dispatcher(inst)
        for op_, m_ in spec.history:
            d_late.dispatch(D.op_by_id(inst, op_), m_)
        ok, res = _safe(eng, "observer_view", "late-subscription", lambda: ask("observer_view", d_late, UnscheduledOperationsObserver(d_late), inst, desc, spec))
        if ok:
            check(eng, "observer_view", res, desc, spec, "observer-created-after-the-dispatches")
        # (2) ordered sequences on replicas
        if mode == "pairs":
            for q1 in QUERIES:
                for q2 in QUERIES:
                    d, obs = replica(inst, spec, filt)
                    ok, r1 = _safe(eng, q1, "first", lambda: ask(q1, d, obs, inst, desc, spec))
                    if not ok:
                        continue
                    if q2 == QUERIES[0]:
                        check(eng, q1, r1, desc, spec, "first-query")
                    ok, r2 = _safe(eng, q2, f"after-{q1}", lambda: ask(q2, d, obs, inst, desc, spec))
                    if ok:
                        check(eng, q2, r2, desc, spec, f"after-{q1}")
        elif mode == "triples":
            for q1 in QUERIES:
                for q2 in QUERIES:
                    for q3 in QUERIES:
                        d, obs = replica(inst, spec)
                        ok, _ = _safe(eng, q1, "first", lambda: ask(q1, d, obs, inst, desc, spec))
                        ok2, _ = _safe(eng, q2, f"after-{q1}", lambda: ask(q2, d, obs, inst, desc, spec))
                        if not (ok and ok2):
                            continue
                        ok, r3 = _safe(eng, q3, f"after-{q1}-{q2}", lambda: ask(q3, d, obs, inst, desc, spec))
                        if ok:
                            check(eng, q3, r3, desc, spec, f"after-{q1}-then-{q2}")
        elif mode == "split" and prev_spec is not None:
            op, m = spec.history[-1]
            for q1 in QUERIES:
                for q2 in QUERIES:
                    d, obs = replica(inst, prev_spec)
                    ok, _ = _safe(eng, q1, "first", lambda: ask(q1, d, obs, inst, desc, prev_spec))
                    if not ok:
                        continue
                    d.dispatch(D.op_by_id(inst, op), m)
                    ok, r2 = _safe(eng, q2, f"after-{q1}-and-dispatch", lambda: ask(q2, d, obs, inst, desc, spec))
                    if ok:
                        check(eng, q2, r2, desc, spec, f"after-{q1}-in-previous-state")
        if k == desc.n_ops:
            break
        op, m = D.choose_dispatch(eng, desc, spec)
        prev_spec = spec.copy()
        if by:
            by.step()
        main.dispatch(D.op_by_id(inst, op), m)
        if by:
            by.step()
        spec.apply(op, m)
        eng.reachable("transition")
        eng.observe("now", main.current_time())


def big_models(sp):
    # solver-chosen large models (>= 2**24+1) of the path conditions, run on the un-instrumented library
    return True
