"""C06 — time only moves forward."""
from __future__ import annotations

import itertools

from .. import drivers as D
from .. import models
from ..spec import Spec, veq
from . import common as C

ID = "C06"
ASSUMPTIONS = [
    "durations: integers >= 0 when no filter is installed, >= 1 when a filter (composition) is installed, as the property states",
    "histories dispatch any *ready* operation (not only the filtered ones) on any eligible machine",
    "probe sub-spaces call min_start_time/earliest_start_time on the last ready operation before every reading of the clock",
    "'second' sub-spaces: the clock properties in an episode that follows an earlier episode of every length and a reset()",
    "'shared' sub-spaces install ONE filter object on two dispatchers with different histories and interleave their queries",
    "'observed' sub-spaces subscribe one of every observer the library ships (history, unscheduled-operations, 7 feature observers + "
    "composite, 2 reward observers, residual graph updater on the agent-task-with-jobs / disjunctive graph) before the first dispatch; "
    "float32 rounding of the feature arrays is outside the claim (numpy facade)",
    "completed sets are read from completed_operations() and compared by operation id",
]
STUBS = ["max", "min", "int (dispatcher module only)", "np facade (observed sub-spaces)"]
BUDGET = {"quick": 480, "thorough": 3000}
BUILTIN = ["dominated_operations", "non_immediate_machines", "non_idle_machines", "non_immediate_operations"]


def compositions(maxlen):
    out = []
    for r in range(1, maxlen + 1):
        out += [list(p) for p in itertools.permutations(BUILTIN, r)]
    return out


def bounds(tier):
    return _bounds(tier) + "; observed: all library observers subscribed, shapes <=3 ops and (2,2) M<=2"


def _bounds(tier):
    if tier == "quick":
        return ("no filter (d>=0): ordered shapes <=3 jobs <=4 ops, all assignments M<=2, flexible M<=2 on <=3 ops; single filters (d>=1): "
                "same non-flexible family and flexible <=3 ops; ordered pairs of filters (d>=1): shapes <=3 ops and (2,2), M<=2; "
                "all interleavings x machine choices")
    return ("quick + all 64 ordered subsets of the 4 built-in filters on shapes <=4 ops M<=2 (non-flexible) and <=3 ops flexible; "
            "no filter/single filters on 5 ops M<=3 up to machine renaming")


def subspaces(tier):
    out = []
    s4, s3 = D.shapes(3, 4), D.shapes(3, 3)
    out += C.structure_subspaces(s4, 2, False, filter="none")
    out += C.structure_subspaces(s3, 2, True, only_flexible=True, filter="none")
    out += C.structure_subspaces(s3 + [(2, 2), (2, 1, 1)], 2, False, filter="none", probe=True)
    out += C.structure_subspaces(s3 + [(2, 2)], 2, False, canonical=True, filter="none", second=True)
    out += C.structure_subspaces(s3, 2, False, canonical=True, filter=["dominated_operations", "non_idle_machines"], second=True)
    for comp in (["dominated_operations", "non_idle_machines"], ["non_immediate_operations", "non_idle_machines"], ["non_immediate_machines"]):
        out += C.structure_subspaces(s3 + [(2, 2)], 2, False, canonical=True, filter=comp, shared=True)
    out += C.wide_subspaces(filter="none")
    out += C.tall_subspaces(filter="none") + C.tall_subspaces(filter=["dominated_operations", "non_idle_machines"], shapes=((7, 3),))
    out += C.wide_subspaces(filter=["dominated_operations", "non_idle_machines"])
    out += C.wide_subspaces(filter="none", observed="atj", pairs=((1, 8),))
    for g in ("atj", "disj"):
        out += C.structure_subspaces(s3 + [(2, 2)], 2, False, canonical=(g == "disj"), filter="none", observed=g)
    out += C.structure_subspaces(s3, 2, False, canonical=True, filter=["dominated_operations", "non_idle_machines"], observed="atj")
    for f in BUILTIN:
        out += C.structure_subspaces(s4, 2, False, filter=[f])
        out += C.structure_subspaces(s3, 2, True, only_flexible=True, filter=[f])
    if tier == "quick":
        for comp in compositions(2)[4:]:
            out += C.structure_subspaces(s3 + [(2, 2)], 2, False, filter=comp)
    else:
        for comp in compositions(4)[4:]:
            out += C.structure_subspaces(s4, 2, False, filter=comp)
            out += C.structure_subspaces(s3, 2, True, only_flexible=True, filter=comp)
        s5 = [s for s in D.shapes(3, 5) if sum(s) == 5]
        for f in ["none"] + [[b] for b in BUILTIN]:
            out += C.structure_subspaces(s5, 3, False, canonical=True, filter=f)
    return out


def cost(sp):
    c = C.cost(dict(sp, filter="x" if sp["filter"] != "none" else "none"))
    return c * (c if sp.get("second") else 1)


def extra_models(sp):
    return models.numpy_facade_models(include_rl=True) if sp.get("observed") else []


def harness(eng, sp):
    from job_shop_lib.dispatching import Dispatcher

    filt = sp["filter"]
    filtered = filt != "none"
    inst, desc = D.build_instance(eng, sp["shape"], sp["machines"], dmin=1 if filtered else 0)
    fobj = C.make_filter(filt) if filtered else None
    disp = Dispatcher(inst, ready_operations_filter=fobj)
    twin = Dispatcher(inst) if filtered else None
    other = Dispatcher(inst, ready_operations_filter=fobj) if sp.get("shared") else None   # same filter object, other history
    spec = Spec(desc)
    tag = "filtered" if filtered else "unfiltered"
    if sp.get("observed"):
        C.attach_library_observers(disp, inst, sp["observed"])
        tag += "/observed"

    def read():
        try:
            if other is not None:
                disp.available_operations()
                other.available_operations()
            if sp.get("probe"):
                # other public time queries asked first must not influence the clock
                ready = spec.ready_ops()
                if ready:
                    disp.min_start_time([D.op_by_id(inst, ready[-1])])
                    disp.earliest_start_time(D.op_by_id(inst, ready[-1]))
            now = disp.current_time()
            comp = sorted(o.operation_id for o in disp.completed_operations())
            return now, comp
        except D.E.Unsupported:
            raise
        except Exception as ex:
            eng.fail(f"C06/{tag}/exception-in-query", f"{type(ex).__name__}: {ex}")
            return None, None

    if sp.get("second"):
        s0 = Spec(desc)
        for _ in range(1 + eng.choice(desc.n_ops, "first-episode-length")):
            disp.current_time()
            disp.completed_operations()
            op, m = D.choose_dispatch(eng, desc, s0)
            disp.dispatch(D.op_by_id(inst, op), m)
            s0.apply(op, m)
        disp.current_time()
        disp.reset()
        tag += "/second-episode"
    now, comp = read()
    if now is None:
        return
    eng.prove(veq(now, 0), f"C06/{tag}/initial-time-not-zero")
    for k in range(desc.n_ops):
        if twin is not None:
            eng.prove(veq(now, twin.current_time()), "C06/filtered/current-time-differs-from-unfiltered")
        op, m = D.choose_dispatch(eng, desc, spec)
        disp.dispatch(D.op_by_id(inst, op), m)
        if twin is not None:
            twin.dispatch(D.op_by_id(inst, op), m)
        if other is not None and k % 2 == 1 and not other.schedule.is_complete():
            o2 = other.raw_ready_operations()[-1]
            other.dispatch(o2, o2.machines[-1])
        spec.apply(op, m)
        eng.reachable("transition")
        eng.reachable("state")
        now2, comp2 = read()
        if now2 is None:
            return
        eng.observe("now", now2)
        eng.prove(now2 >= now, f"C06/{tag}/current-time-decreased")
        if not set(comp) <= set(comp2):
            eng.fail(f"C06/{tag}/completed-set-shrank", f"{comp} -> {comp2}")
        now, comp = now2, comp2
    eng.prove(veq(now, spec.makespan()), f"C06/{tag}/final-time-not-makespan")
    eng.prove(veq(now, disp.schedule.makespan()), f"C06/{tag}/final-time-not-library-makespan")
    if twin is not None:
        eng.prove(veq(now, twin.current_time()), "C06/filtered/current-time-differs-from-unfiltered")
    if comp != list(range(desc.n_ops)):
        eng.fail(f"C06/{tag}/not-all-completed-at-the-end", f"{comp}")


def big_models(sp):
    # solver-chosen large models (>= 2**24+1) of the path conditions, run on the un-instrumented library
    return True
