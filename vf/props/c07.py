"""C07 — ready-operation filters prune soundly and never deadlock."""
from __future__ import annotations

import itertools

from .. import drivers as D
from ..spec import Spec, vand, vor, vnot, veq, vmin
from . import common as C
from .c06 import BUILTIN, compositions

ID = "C07"
ASSUMPTIONS = [
    "durations: integers >= 0; the 'kept <=> criterion' equivalence of the dominated-operations filter is demanded for durations >= 1 only "
    "(its documented zero-duration shortcut), sub-list/non-emptiness/composition for durations >= 0",
    "criteria (from the property statement, computed from instance+history only): non_idle: some eligible machine whose last operation "
    "ends <= t_min; non_immediate_operations: earliest start == t_min; non_immediate_machines: some eligible machine on which some "
    "operation of L starts at t_min; dominated: on some eligible machine its start < min over L of (start+duration) there; "
    "t_min = min over L and eligible machines of the forced start",
    "'second' sub-spaces check the single filters in the states of a second episode (after an earlier episode of every length, during which "
    "the filters were called, and a reset())",
    "filters are called directly with every non-empty order-preserving sub-list L of the ready operations in every reachable state; "
    "compositions are also built from a generator of names, from a mix of enum members and callables, and as a composition of two "
    "compositions (a composite is itself a filter); all must give the same result on the full ready list",
    "compositions are built by create_composite_operation_filter and compared with the chain of single filters on a replica dispatcher",
]
STUBS = ["max", "min", "int (dispatcher module only)"]
BUDGET = {"quick": 480, "thorough": 3000}


def bounds(tier):
    if tier == "quick":
        return ("criteria mode: ordered shapes <=3 jobs <=4 ops all assignments M<=2 non-flexible, flexible M<=2 on <=3 ops; every state of "
                "every history; every non-empty sub-list of the ready ops; 4 single filters + 12 ordered pairs; d>=1 and d>=0 variants. "
                "progress mode: each single filter and the default pair installed, following only available operations")
    return "quick + compositions up to length 4 (64), 5 operations M<=3 up to machine renaming (singles and pairs), flexible on 4 ops"


def subspaces(tier):
    out = []
    s4, s3 = D.shapes(3, 4), D.shapes(3, 3)
    ml = 2 if tier == "quick" else 4
    for dmin in (1, 0):
        out += C.structure_subspaces(s4, 2, False, mode="criteria", dmin=dmin, maxlen=ml)
        out += C.structure_subspaces(s3, 2, True, only_flexible=True, mode="criteria", dmin=dmin, maxlen=ml)
    out += C.structure_subspaces(s3 + [(2, 2)], 2, False, canonical=True, mode="criteria", dmin=1, maxlen=1, second=True)
    for f in [[b] for b in BUILTIN] + [C.FILTERS["default_pair"]]:
        out += C.structure_subspaces(s4, 2, False, mode="progress", dmin=0, filter=f)
        out += C.structure_subspaces(s3, 2, True, only_flexible=True, mode="progress", dmin=0, filter=f)
    if tier == "thorough":
        s5 = [s for s in D.shapes(3, 5) if sum(s) == 5]
        out += C.structure_subspaces(s5, 3, False, canonical=True, mode="criteria", dmin=1, maxlen=2)
        out += C.structure_subspaces([s for s in s4 if sum(s) == 4], 2, True, only_flexible=True, mode="criteria", dmin=1, maxlen=2)
        for comp in compositions(4):
            out += C.structure_subspaces(s4, 2, False, mode="progress", dmin=0, filter=comp)
    return out


def cost(sp):
    return C.cost(dict(sp, filter="none")) * (8 if sp["mode"] == "criteria" else 1) * (C.cost(dict(sp, filter="none")) if sp.get("second") else 1)


def criterion(name, o, L, desc, spec, tmin):
    ms = desc.machines[o]
    if name == "non_idle_machines":
        return vor([spec.mach_free[m] <= tmin for m in ms])
    if name == "non_immediate_operations":
        return veq(spec.earliest_start(o), tmin)
    if name == "non_immediate_machines":
        return vor([veq(spec.forced_start(o2, m), tmin) for m in ms for o2 in L if m in desc.machines[o2]])
    if name == "dominated_operations":
        conds = []
        for m in ms:
            ends = [spec.forced_start(o2, m) + desc.dur[o2] for o2 in L if m in desc.machines[o2]]
            conds.append(spec.forced_start(o, m) < (vmin(*ends) if len(ends) > 1 else ends[0]))
        return vor(conds)
    raise KeyError(name)


def comp_fns_lookup(comp_fns):
    return [("+".join(c), fn) for c, fn in comp_fns]


def sublists(xs):
    out = []
    for r in range(1, len(xs) + 1):
        for idx in itertools.combinations(range(len(xs)), r):
            out.append([xs[i] for i in idx])
    return out


def call(eng, f, disp, ops, key):
    try:
        return [o.operation_id for o in f(disp, list(ops))]
    except D.E.Unsupported:
        raise
    except Exception as ex:
        eng.fail(key + "/exception", f"{type(ex).__name__}: {ex}")
        return None


def is_subsequence(res, L):
    it = iter(L)
    return all(any(x == y for y in it) for x in res)


def harness(eng, sp):
    from job_shop_lib.dispatching import (Dispatcher, ready_operations_filter_factory,
                                          create_composite_operation_filter)

    dmin = sp["dmin"]
    inst, desc = D.build_instance(eng, sp["shape"], sp["machines"], dmin=dmin)
    spec = Spec(desc)
    if sp["mode"] == "progress":
        name = "+".join(sp["filter"])
        disp = Dispatcher(inst, ready_operations_filter=C.make_filter(sp["filter"]))
        for k in range(desc.n_ops):
            if disp.schedule.is_complete():
                eng.fail(f"C07/progress/{name}/complete-too-early")
                return
            av = call(eng, lambda d, _: d.available_operations(), disp, [], f"C07/progress/{name}")
            if av is None:
                return
            if not av:
                eng.fail(f"C07/progress/{name}/no-available-operation-before-completion", f"after {spec.history}")
                return
            if len(set(av)) != len(av) or not set(av) <= set(spec.ready_ops()):
                eng.fail(f"C07/progress/{name}/available-not-a-subset-of-ready", f"{av} vs {spec.ready_ops()}")
                return
            op, m = D.choose_dispatch(eng, desc, spec, candidates=av)
            disp.dispatch(D.op_by_id(inst, op), m)
            spec.apply(op, m)
            eng.reachable("transition")
            eng.reachable("state")
        eng.observe("mk", disp.schedule.makespan())
        if not disp.schedule.is_complete():
            eng.fail(f"C07/progress/{name}/not-complete-after-one-dispatch-per-operation")
        return

    disp = Dispatcher(inst)
    rep = Dispatcher(inst)
    if sp.get("second"):
        # the same dispatchers after an earlier episode of chosen length and a reset(): states of later episodes are reachable states
        s0 = Spec(desc)
        f0 = ready_operations_filter_factory("non_idle_machines")
        for _ in range(1 + eng.choice(desc.n_ops, "first-episode-length")):
            f0(disp, disp.raw_ready_operations())
            op, m = D.choose_dispatch(eng, desc, s0)
            disp.dispatch(D.op_by_id(inst, op), m)
            rep.dispatch(D.op_by_id(inst, op), m)
            s0.apply(op, m)
        for b in BUILTIN:
            ready_operations_filter_factory(b)(disp, disp.raw_ready_operations()) if not disp.schedule.is_complete() else None
        disp.reset()
        rep.reset()
    singles = {b: ready_operations_filter_factory(b) for b in BUILTIN}
    comps = [c for c in compositions(sp["maxlen"]) if len(c) > 1]
    comp_fns = [(c, create_composite_operation_filter(c)) for c in comps]
    # the argument is declared Iterable: a generator of names (and a mix of enum members and callables) must build the same filter
    from job_shop_lib.dispatching import ReadyOperationsFilterType

    gen_fns = [(c, create_composite_operation_filter(n for n in c),
                create_composite_operation_filter([ReadyOperationsFilterType(c[0])] + [singles[b] for b in c[1:]]),
                # a composite is itself a filter: a composition of compositions
                create_composite_operation_filter([create_composite_operation_filter([c[0]]),
                                                   create_composite_operation_filter(list(c[1:]))])) for c in comps]
    for k in range(desc.n_ops):
        ready = spec.ready_ops()
        eng.reachable("state")
        for L in sublists(ready):
            Lops = [D.op_by_id(inst, o) for o in L]
            tmin = spec.min_start(L)
            for b in BUILTIN:
                key = f"C07/{b}"
                res = call(eng, singles[b], disp, Lops, key)
                if res is None:
                    continue
                if not res:
                    eng.fail(key + "/empty-result-for-non-empty-input", f"L={L} after {spec.history}")
                    continue
                if len(set(res)) != len(res) or not is_subsequence(res, L):
                    eng.fail(key + "/not-an-order-preserving-sublist", f"{res} of {L}")
                    continue
                if b == "dominated_operations" and dmin == 0:
                    continue
                conds = []
                for o in L:
                    c = criterion(b, o, L, desc, spec, tmin)
                    conds.append(c if o in res else vnot(c))
                eng.prove(vand(conds), key + "/kept-set-differs-from-documented-criterion", f"L={L} kept={res}")
            for c, fn in comp_fns:
                key = "C07/composition/" + "+".join(c)
                res = call(eng, fn, disp, Lops, key)
                if res is None:
                    continue
                cur = list(Lops)
                chain_ok = True
                for b in c:
                    ids = call(eng, singles[b], rep, cur, key + "/chain")
                    if ids is None:
                        chain_ok = False
                        break
                    cur = [D.op_by_id(inst, o) for o in ids]
                if not chain_ok:
                    continue
                exp = [o.operation_id for o in cur]
                if res != exp:
                    eng.fail(key + "/differs-from-left-to-right-chain", f"L={L}: {res} vs {exp}")
                if not res:
                    eng.fail(key + "/empty-result-for-non-empty-input", f"L={L} after {spec.history}")
                elif len(set(res)) != len(res) or not is_subsequence(res, L):
                    eng.fail(key + "/not-an-order-preserving-sublist", f"{res} of {L}")
            if L == ready:
                for c, g1, g2, g3 in gen_fns:
                    key = "C07/composition/" + "+".join(c)
                    want = call(eng, dict(comp_fns_lookup(comp_fns))["+".join(c)], disp, Lops, key)
                    for how, fn in (("generator-of-names", g1), ("enum-and-callables", g2), ("nested-composites", g3)):
                        got = call(eng, fn, disp, Lops, key + "/" + how)
                        if got is not None and want is not None and got != want:
                            eng.fail(key + f"/built-from-{how}-differs", f"L={L}: {got} vs {want}")
        op, m = D.choose_dispatch(eng, desc, spec)
        disp.dispatch(D.op_by_id(inst, op), m)
        rep.dispatch(D.op_by_id(inst, op), m)
        spec.apply(op, m)
        eng.reachable("transition")
        eng.observe("t", disp.min_start_time(disp.raw_ready_operations()))


def big_models(sp):
    # solver-chosen large models (>= 2**24+1) of the path conditions, run on the un-instrumented library
    return True
