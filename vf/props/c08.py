"""C08 — pruning dominated operations never loses the optimum.

Per instance structure: the filtered dispatch tree of the real Dispatcher +
filter_dominated_operations is explored with symbolic durations >= 1; every
complete path h contributes its path condition PC_h(d) and makespan M_h(d).
Then ONE quantifier-free query:
    exists d >= 1, exists schedule s: feasible(s, d) and AND_h (PC_h(d) => M_h(d) > makespan(s))
unsat  ==> for every duration vector the filtered tree contains a schedule at
least as good as any feasible schedule.  sat ==> concrete durations, replayed by
brute force over both trees with the unmodified library.
"""
from __future__ import annotations

import time

import z3

from .. import drivers as D
from .. import engine as E
from ..spec import Spec
from . import common as C

ID = "C08"
ASSUMPTIONS = [
    "durations are arbitrary integers >= 1 (z3 Int, unbounded above), as the property states",
    "OPT(I) is the minimum makespan over ALL feasible schedules of an independent disjunctive formulation (start times and machine "
    "choices existentially quantified), not over dispatcher histories",
    "the converse inequality (min filtered >= OPT) follows from C01 (every history is feasible) and is not re-proved here",
    "the filter is installed through the public Dispatcher(ready_operations_filter=...) argument, as the environments and the rule solver do",
]
STUBS = ["max", "min", "int (dispatcher module only)"]
BUDGET = {"quick": 480, "thorough": 3300}
VALIDATE = True


def bounds(tier):
    if tier == "quick":
        return ("every ordered shape with 2..3 jobs and <=5 operations: every machine assignment with M<=2 and every assignment using 3 machines "
                "up to renaming (non-flexible); every flexible structure M<=2 on <=4 operations; durations Z>=1; one final query per structure")
    return ("quick + (2,2,2),(3,3),(3,2,1),(4,2),(2,2,1,1),(3,2,2),(3,3,1),(4,3) with M<=3 up to machine renaming; flexible M<=2 on "
            "(2,3),(3,2),(2,2,1),(2,1,2),(1,2,2)")


def subspaces(tier):
    out = []
    multi = [s for s in D.shapes(3, 5) if len(s) >= 2]
    out += C.structure_subspaces(multi, 2, False)
    out += C.structure_subspaces([s for s in D.shapes(3, 4) if len(s) >= 2], 2, True, only_flexible=True)
    out += [sp for sp in C.structure_subspaces(multi, 3, False, canonical=True)
            if max(m[0] for m in sp["machines"]) == 2]
    if tier == "quick":
        return out
    out += C.structure_subspaces([(2, 2, 2), (3, 3), (3, 2, 1), (4, 2), (2, 2, 1, 1), (3, 2, 2), (3, 3, 1), (4, 3)],
                                 3, False, canonical=True)
    out += C.structure_subspaces([(2, 3), (3, 2), (2, 2, 1), (2, 1, 2), (1, 2, 2)], 2, True, only_flexible=True)
    return out


def cost(sp):
    return C.cost(sp) * (3 ** sum(len(m) > 1 for m in sp["machines"]))


def _filter():
    from job_shop_lib.dispatching import ready_operations_filter_factory

    return ready_operations_filter_factory("dominated_operations")


def brute(inst, desc, filt):
    """Best makespan over the (filtered) dispatch tree, real library, concrete."""
    from job_shop_lib.dispatching import Dispatcher

    best = [None, None]

    def rec(hist):
        d = Dispatcher(inst, ready_operations_filter=filt)
        for o, m in hist:
            d.dispatch(D.op_by_id(inst, o), m)
        if d.schedule.is_complete():
            mk = d.schedule.makespan()
            if best[0] is None or mk < best[0]:
                best[0], best[1] = mk, list(hist)
            return
        av = d.available_operations()
        for op in av:
            for m in op.machines:
                rec(hist + [(op.operation_id, m)])

    rec([])
    return best


def harness(eng, sp):
    from job_shop_lib.dispatching import Dispatcher

    inst, desc = D.build_instance(eng, sp["shape"], sp["machines"], dmin=1)
    if eng.mode == "conc" and (eng.values.get("__final__") or not eng.script_mode or not eng.script):
        f_best, f_hist = brute(inst, desc, _filter())
        u_best, u_hist = brute(inst, desc, None)
        claimed = eng.values.get("__better_makespan__")
        eng.prove(f_best is not None and f_best <= u_best,
                  "C08/filtered-optimum-worse-than-true-optimum",
                  f"durations={desc.dur} best filtered={f_best} best unfiltered={u_best} via {u_hist}")
        return
    disp = Dispatcher(inst, ready_operations_filter=_filter())
    spec = Spec(desc)
    for k in range(desc.n_ops):
        try:
            av = [o.operation_id for o in disp.available_operations()]
        except E.Unsupported:
            raise
        except Exception as ex:
            eng.fail("C08/exception-in-filter", f"{type(ex).__name__}: {ex}")
            return
        if not av:
            eng.fail("C08/filtered-tree-dead-end", f"after {spec.history}")
            return
        op, m = D.choose_dispatch(eng, desc, spec, candidates=av)
        try:
            disp.dispatch(D.op_by_id(inst, op), m)
        except E.Unsupported:
            raise
        except Exception as ex:
            eng.fail("C08/available-operation-rejected-on-an-eligible-machine", f"{type(ex).__name__}: {ex}"[:200])
            return
        spec.apply(op, m)
        eng.reachable("transition")
        eng.reachable("state")
    mk = disp.schedule.makespan()
    eng.observe("mk", mk)
    if eng.mode == "sym":
        eng.user.setdefault("paths", []).append((list(eng.solver.assertions()), mk.e if isinstance(mk, E.SInt) else mk,
                                                 list(spec.history)))


def finalize(eng, sp):
    desc = Spec  # noqa (for readability below)
    shape, machines = sp["shape"], sp["machines"]
    n = sum(shape)
    paths = eng.user.get("paths", [])
    s = z3.Solver()
    s.set("timeout", 120000)
    d = [z3.Int(f"d{k}") for k in range(n)]
    st = [z3.Int(f"s{k}") for k in range(n)]
    mc = [z3.Int(f"mc{k}") for k in range(n)]
    mk = z3.Int("mk")
    for k in range(n):
        s.add(d[k] >= 1, st[k] >= 0, mk >= st[k] + d[k])
        s.add(z3.Or([mc[k] == m for m in machines[k]]))
    k = 0
    for nops in shape:
        for p in range(nops):
            if p > 0:
                s.add(st[k] >= st[k - 1] + d[k - 1])
            k += 1
    for a in range(n):
        for b in range(a + 1, n):
            if set(machines[a]) & set(machines[b]):
                s.add(z3.Or(mc[a] != mc[b], st[a] + d[a] <= st[b], st[b] + d[b] <= st[a]))
    for pc, m, _ in paths:
        s.add(z3.Implies(z3.And(pc) if pc else z3.BoolVal(True), m > mk))
    t = time.perf_counter()
    r = s.check()
    eng.stats["solver_s"] += time.perf_counter() - t
    eng.stats[str(r)] += 1
    eng.stats["obligations"] += 1
    eng.stats.setdefault("reached", {})
    eng.stats["reached"]["final-query"] = eng.stats["reached"].get("final-query", 0) + 1
    eng.stats["reached"]["filtered-complete-paths"] = eng.stats["reached"].get("filtered-complete-paths", 0) + len(paths)
    # independent re-decision of the one-shot query (z3 4.8.12 binary; cvc5 as well in the thorough tier)
    import os

    bins = ("/usr/bin/z3", "/usr/bin/cvc5") if os.environ.get("VERIF_TIER") == "thorough" else ("/usr/bin/z3",)
    second = E.second_opinion(s, timeout_s=120, binaries=bins)
    for b, res in second.items():
        eng.stats["reached"][f"second-solver:{os.path.basename(b)}:{res}"] = \
            eng.stats["reached"].get(f"second-solver:{os.path.basename(b)}:{res}", 0) + 1
        if res in ("sat", "unsat") and res != str(r) and str(r) in ("sat", "unsat"):
            eng.violations.append(E.Violation("C08/solvers-disagree-on-the-final-query",
                                              f"z3 {z3.get_version_string()}: {r}, {b}: {res}", {"__final__": 1}, []))
    if r == z3.unsat:
        eng.stats["proved"] += 1
        return
    if r == z3.sat:
        mod = s.model()
        vals = {f"d{k}": mod.eval(d[k], model_completion=True).as_long() for k in range(n)}
        vals["__final__"] = 1
        vals["__better_makespan__"] = mod.eval(mk, model_completion=True).as_long()
        detail = "better schedule: " + str([(k, mod.eval(mc[k], model_completion=True).as_long(),
                                             mod.eval(st[k], model_completion=True).as_long()) for k in range(n)])
        eng.violations.append(E.Violation("C08/filtered-optimum-worse-than-true-optimum", detail, vals, []))
    else:
        eng.violations.append(E.Violation("C08/final-query-unknown", "solver returned unknown", {"__final__": 1}, []))
