"""C09 — rejected requests change nothing."""
from __future__ import annotations

from .. import drivers as D
from .. import engine as E
from .. import models
from ..spec import Spec, vand, veq
from . import common as C

ID = "C09"
ASSUMPTIONS = [
    "durations are arbitrary integers >= 0; feature arrays are kept exact by the numpy facade (float32 rounding outside the claim)",
    "in EVERY state of every history ALL invalid requests of these kinds are injected one after the other on one twin: operation already "
    "scheduled; operation not yet ready; ready operation on machine -1, num_machines, num_machines+5 and every in-range ineligible "
    "machine; machine_id=None for a multi-machine operation; env.step for a finished job (every machine id and -1), env.step with an "
    "ineligible machine, env.step(job, -1) for a multi-machine operation",
    "state = schedule lists, tracking vectors, answers of the state queries, and the public state of History, UnscheduledOperations, "
    "MakespanReward, IdleTimeReward, all seven feature observers, a call-recording observer, a ResidualGraphUpdater (disjunctive graph) "
    "and, in env mode, the observation returned by get_observation()",
    "bare mode: the same injections on a dispatcher without observers and without any query between the requests (only the schedule "
    "lists and tracking vectors are read), so that a value cached by a rejected request cannot be refreshed before the next valid one",
    "any Exception subclass counts as 'raises'",
]
STUBS = ["max", "min", "int (dispatcher module only)", "np facade (feature observers, instance arrays)"]
BUDGET = {"quick": 480, "thorough": 3000}


def bounds(tier):
    if tier == "quick":
        return ("dispatcher mode: ordered shapes <=3 jobs <=4 ops, all assignments M<=2, flexible M<=2 on <=3 ops; env mode: shapes <=3 ops "
                "M<=2 incl. flexible; every history; all invalid requests in every state")
    return "quick + 5 ops M<=3 up to renaming (dispatcher mode), env mode on 4 ops, flexible on 4 ops"


def extra_models(sp):
    return models.numpy_facade_models(include_rl=True)


def subspaces(tier):
    out = []
    s4, s3 = D.shapes(3, 4), D.shapes(3, 3)
    out += C.structure_subspaces(s4, 2, False, mode="dispatcher")
    out += C.structure_subspaces(s3, 2, True, only_flexible=True, mode="dispatcher")
    out += C.structure_subspaces(s4, 2, False, mode="bare")
    out += C.structure_subspaces(s3, 2, True, only_flexible=True, mode="bare")
    out += [sp for sp in C.structure_subspaces(s3, 3, False, canonical=True, mode="bare") if max(m[0] for m in sp["machines"]) == 2]
    out += C.wide_subspaces(mode="bare", histories=("jobmajor", "reverse"))
    out += C.wide_subspaces(mode="dispatcher", histories=("roundrobin",), pairs=((1, 8),))
    out += C.structure_subspaces(s3, 2, False, mode="env")
    out += C.structure_subspaces(s3, 2, True, only_flexible=True, mode="env")
    if tier == "thorough":
        out += C.structure_subspaces([s for s in D.shapes(3, 5) if sum(s) == 5], 3, False, canonical=True, mode="dispatcher")
        out += C.structure_subspaces([s for s in s4 if sum(s) == 4], 2, True, only_flexible=True, mode="dispatcher")
        out += C.structure_subspaces([s for s in s4 if sum(s) == 4], 2, False, mode="env")
    return out


def cost(sp):
    return C.cost(sp) * (3 if sp["mode"] == "env" else 0.3 if sp["mode"] == "bare" else 1)


def make_recorder():
    from job_shop_lib.dispatching import DispatcherObserver

    class Recorder(DispatcherObserver):
        _is_singleton = False

        def __init__(self, dispatcher, *, subscribe=True):
            super().__init__(dispatcher, subscribe=subscribe)
            self.log = []

        def update(self, scheduled_operation):
            self.log.append(("update", scheduled_operation.operation.operation_id, scheduled_operation.start_time,
                             scheduled_operation.machine_id))

        def reset(self):
            self.log.append(("reset",))

    return Recorder


def attach_observers(disp, inst):
    from job_shop_lib.dispatching import HistoryObserver, UnscheduledOperationsObserver
    from job_shop_lib.dispatching.feature_observers import FeatureObserverType, feature_observer_factory
    from job_shop_lib.reinforcement_learning import MakespanReward, IdleTimeReward
    from job_shop_lib.graphs import build_disjunctive_graph
    from job_shop_lib.graphs.graph_updaters import ResidualGraphUpdater

    obs = [HistoryObserver(disp), UnscheduledOperationsObserver(disp), MakespanReward(disp), IdleTimeReward(disp),
           make_recorder()(disp)]
    for t in FeatureObserverType:
        if t.value == "composite":
            continue
        try:
            obs.append(feature_observer_factory(t, dispatcher=disp))
        except E.Unsupported:
            raise
        except Exception:
            pass  # constructibility is C11's subject
    obs.append(ResidualGraphUpdater(disp, build_disjunctive_graph(inst)))
    return obs


def full_snapshot(disp, observers, env=None):
    s = {"dispatcher": D.snap_dispatcher(disp, queries=False)}
    s["observers"] = [D.snap_observer(o) for o in disp.subscribers]
    if env is not None:
        s["obs"] = D.snap_value(env.get_observation())
        s["graph"] = D.snap_graph(env.job_shop_graph)
    s["queries"] = D.snap_dispatcher(disp, queries=True)["q"]
    return s


def invalid_dispatches(desc, spec):
    reqs = []
    ready = spec.ready_ops()
    for o in range(desc.n_ops):
        if o in spec.start:
            reqs.append(("already-scheduled", o, spec.machine_of[o]))
        elif o not in ready:
            reqs.append(("not-ready", o, desc.machines[o][0]))
    for o in ready:
        bad = [-1, desc.n_machines, desc.n_machines + 5] + [m for m in range(desc.n_machines) if m not in desc.machines[o]]
        for m in bad:
            kind = "ineligible-machine" if 0 <= m < desc.n_machines else f"machine-id-{'minus-one' if m < 0 else 'out-of-range'}"
            reqs.append((kind, o, m))
        if len(desc.machines[o]) > 1:
            reqs.append(("machine-none-for-multi-machine-operation", o, None))
    return reqs


def invalid_steps(desc, spec):
    reqs = []
    for j in range(desc.n_jobs):
        if spec.next_idx[j] >= len(desc.jobs[j]):
            for m in list(range(desc.n_machines)) + [-1]:
                reqs.append(("finished-job", j, m))
        else:
            o = desc.jobs[j][spec.next_idx[j]]
            for m in range(desc.n_machines):
                if m not in desc.machines[o]:
                    reqs.append(("ineligible-machine", j, m))
            if len(desc.machines[o]) > 1:
                reqs.append(("minus-one-for-multi-machine-operation", j, -1))
    return reqs


def harness(eng, sp):
    from job_shop_lib.dispatching import Dispatcher

    inst, desc = D.build_instance(eng, sp["shape"], sp["machines"], dmin=0)
    if sp["mode"] == "env":
        return env_harness(eng, sp, inst, desc)
    A, B = Dispatcher(inst), Dispatcher(inst)
    bare = sp["mode"] == "bare"
    if bare:
        # no observers and no queries at all between the requests: nothing may refresh a cached value
        obsA = obsB = []
        snap = lambda d, o: {"dispatcher": D.snap_dispatcher(d, queries=False)}
    else:
        obsA, obsB = attach_observers(A, inst), attach_observers(B, inst)
        snap = full_snapshot
    spec = Spec(desc)
    for k in range(desc.n_ops + 1):
        eng.reachable("state")
        before = snap(A, obsA)
        snap(B, obsB)
        for kind, o, m in invalid_dispatches(desc, spec):
            lop = D.op_by_id(inst, o)
            raised = False
            try:
                if m is None:
                    A.dispatch(lop)
                else:
                    A.dispatch(lop, m)
            except E.Unsupported:
                raise
            except Exception:
                raised = True
            if not raised:
                eng.fail(f"C09/dispatch/{kind}/accepted", f"op {o} machine {m} after {spec.history}")
            after = snap(A, obsA)
            D.prove_snap_equal(eng, before, after, f"C09/dispatch/{kind}/state-changed", f"op {o} machine {m} after {spec.history}:")
        if k == desc.n_ops:
            break
        op, m = D.choose_dispatch(eng, desc, spec)
        for X in (A, B):
            try:
                X.dispatch(D.op_by_id(inst, op), m)
            except E.Unsupported:
                raise
            except Exception as ex:
                eng.fail("C09/valid-dispatch-fails-after-rejected-requests" if X is A else "C09/valid-dispatch-fails",
                         f"{type(ex).__name__}: {ex}")
                return
        spec.apply(op, m)
        eng.reachable("transition")
        eng.observe("starts", [s for l in D.lib_lists(A.schedule) for (_, s, _) in l])
        D.prove_snap_equal(eng, snap(A, obsA), snap(B, obsB),
                           "C09/twin-with-rejected-requests-diverges", f"after {spec.history}:")


def env_harness(eng, sp, inst, desc):
    from job_shop_lib.dispatching import DispatcherObserverConfig
    from job_shop_lib.dispatching.feature_observers import FeatureObserverType
    from job_shop_lib.graphs import build_disjunctive_graph
    from job_shop_lib.reinforcement_learning import SingleJobShopGraphEnv

    def mk():
        cfgs = [DispatcherObserverConfig(t) for t in (FeatureObserverType.IS_READY, FeatureObserverType.IS_SCHEDULED,
                                                      FeatureObserverType.DURATION, FeatureObserverType.REMAINING_OPERATIONS)]
        env = SingleJobShopGraphEnv(build_disjunctive_graph(inst), cfgs, ready_operations_filter=None)
        env.reset()
        return env

    A, B = mk(), mk()
    spec = Spec(desc)
    for k in range(desc.n_ops + 1):
        eng.reachable("state")
        before = full_snapshot(A.dispatcher, None, env=A)
        full_snapshot(B.dispatcher, None, env=B)
        for kind, j, m in invalid_steps(desc, spec):
            raised = False
            try:
                A.step((j, m))
            except E.Unsupported:
                raise
            except Exception:
                raised = True
            if not raised:
                eng.fail(f"C09/env-step/{kind}/accepted", f"action ({j},{m}) after {spec.history}")
            after = full_snapshot(A.dispatcher, None, env=A)
            D.prove_snap_equal(eng, before, after, f"C09/env-step/{kind}/state-changed", f"action ({j},{m}) after {spec.history}:")
        if k == desc.n_ops:
            break
        op, m = D.choose_dispatch(eng, desc, spec)
        ra = A.step((desc.job_of[op], m))
        rb = B.step((desc.job_of[op], m))
        spec.apply(op, m)
        eng.reachable("transition")
        eng.observe("reward", ra[1])
        D.prove_snap_equal(eng, [D.snap_value(ra[0]), ra[1], ra[2], ra[3]], [D.snap_value(rb[0]), rb[1], rb[2], rb[3]],
                           "C09/env-twin-with-rejected-steps-diverges", f"after {spec.history}:")


def big_models(sp):
    # solver-chosen large models (>= 2**24+1) of the path conditions, run on the un-instrumented library
    return True
