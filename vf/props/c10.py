"""C10 — observers see every dispatch once, in order, after it took effect."""
from __future__ import annotations

from .. import drivers as D
from .. import engine as E
from ..spec import Spec, vand, veq
from . import common as C

ID = "C10"
ASSUMPTIONS = [
    "durations are arbitrary integers >= 0; no filter installed (available = ready)",
    "post-state is checked INSIDE update(): the operation is last on its machine list, is_scheduled, tracking vectors, "
    "scheduled/unscheduled/available operations and current_time already equal the independent post-state recomputation; the harness "
    "asks the cached queries between dispatches so that a stale cache would be visible",
    "many mode: 12 recorders + the history observer subscribed; any one recorder is unsubscribed (and possibly subscribed again) before any "
    "dispatch; more than 13 subscribers are outside the claim",
    "event alphabet: D valid dispatch (every ready op x machine), I invalid dispatch, S subscribe a new recorder, U unsubscribe the oldest "
    "recorder, R reset, H create a second HistoryObserver (must raise, must not be subscribed), G create_or_get_observer without condition, "
    "C create_or_get_observer with a condition matching only the most recently subscribed recorder, h unsubscribe / re-subscribe the "
    "HistoryObserver (toggle), t re-subscribe the most recently unsubscribed recorder; an observer that is not subscribed receives nothing "
    "(neither dispatches nor resets) and keeps its record",
]
STUBS = ["max", "min", "int (dispatcher module only)", "np facade"]
BUDGET = {"quick": 480, "thorough": 3000}
ALPHABET = "DISURHGCht"


def extra_models(sp):
    from .. import models

    return models.numpy_facade_models()


def bounds(tier):
    if tier == "quick":
        return ("plain mode: ordered shapes <=3 jobs <=4 ops, all assignments M<=2, flexible M<=2 on <=3 ops, all histories, 2 recorders + "
                "HistoryObserver; words mode: every event word over the 10-letter alphabet of length <=5 on (1,1) one machine and (2,1) M=2, of length <=4 on four more structures incl. flexible")
    return "quick + words of length <=6 on the same structures and of length <=5 on (2,2),(1,1,1)"


def subspaces(tier):
    out = []
    out += C.structure_subspaces(D.shapes(3, 4), 2, False, mode="plain")
    out += C.structure_subspaces(D.shapes(3, 3), 2, True, only_flexible=True, mode="plain")
    for sh, ms in (([1, 1], [[0], [1]]), ([2, 1], [[0], [1], [0]])):
        out.append(dict(shape=sh, machines=ms, mode="many"))
    out += C.wide_subspaces(mode="plain", pairs=((1, 8), (4, 5))) + C.tall_subspaces(mode="plain")
    structs = [([1, 1], [[0], [0]]), ([2, 1], [[0], [1], [1]]), ([1, 1], [[0], [1]]), ([2, 1], [[0], [1], [0]]),
               ([1, 1], [[0, 1], [0]]), ([2], [[0, 1], [1]])]
    for i, (sh, ms) in enumerate(structs):
        L = (5 if i < 2 else 4) if tier == "quick" else 6
        for first in ALPHABET:
            for second in ALPHABET:
                out.append(dict(shape=sh, machines=ms, mode="words", length=L, prefix=first + second))
    if tier == "thorough":
        for sh, ms in [([2, 2], [[0], [1], [1], [0]]), ([1, 1, 1], [[0], [1], [0]])]:
            for first in ALPHABET:
                for second in ALPHABET:
                    out.append(dict(shape=sh, machines=ms, mode="words", length=5, prefix=first + second))
    return out


def cost(sp):
    if sp["mode"] == "many":
        return 500
    return C.cost(sp) if sp["mode"] == "plain" else 10 ** (sp["length"] - 2)


class Ctx:
    pass


def make_recorder_class(ctx):
    from job_shop_lib.dispatching import DispatcherObserver

    class Recorder(DispatcherObserver):
        _is_singleton = False

        def __init__(self, dispatcher, *, subscribe=True, tag=None):
            super().__init__(dispatcher, subscribe=subscribe)
            self.tag = tag if tag is not None else ctx.next_tag()
            self.log = []

        def update(self, scheduled_operation):
            self.log.append(("update", scheduled_operation.operation.operation_id, scheduled_operation.machine_id))
            ctx.global_log.append(self.tag)
            check_post_state(ctx, self.dispatcher, scheduled_operation)

        def reset(self):
            self.log.append(("reset",))
            ctx.global_log.append(self.tag)

    return Recorder


def check_post_state(ctx, disp, sop):
    eng, spec, desc = ctx.eng, ctx.spec, ctx.desc
    op = sop.operation.operation_id
    key = "C10/update-sees-pre-dispatch-state"
    lst = disp.schedule.schedule[sop.machine_id]
    if not lst or lst[-1] is not sop:
        eng.fail(key + "/operation-not-last-on-its-machine")
    if not disp.is_scheduled(sop.operation):
        eng.fail(key + "/is_scheduled-false")
    if list(disp.job_next_operation_index) != spec.next_idx:
        eng.fail(key + "/job_next_operation_index", f"{list(disp.job_next_operation_index)} vs {spec.next_idx}")
    sched = sorted(o.operation_id for o in disp.scheduled_operations())
    unsched = sorted(o.operation_id for o in disp.unscheduled_operations())
    avail = sorted(o.operation_id for o in disp.available_operations())
    if sched != spec.scheduled_ops():
        eng.fail(key + "/scheduled_operations", f"{sched} vs {spec.scheduled_ops()}")
    if unsched != spec.unscheduled_ops():
        eng.fail(key + "/unscheduled_operations", f"{unsched} vs {spec.unscheduled_ops()}")
    if avail != sorted(spec.ready_ops()):
        eng.fail(key + "/available_operations", f"{avail} vs {sorted(spec.ready_ops())}")
    items = [(veq(sop.start_time, spec.start[op]), "C10/notified-with-wrong-start-time")]
    items += [(veq(a, b), key + "/machine_next_available_time") for a, b in zip(disp.machine_next_available_time, spec.mach_free)]
    items += [(veq(a, b), key + "/job_next_available_time") for a, b in zip(disp.job_next_available_time, spec.job_free)]
    items.append((veq(disp.current_time(), spec.now()), key + "/current_time"))
    items.append((veq(disp.schedule.makespan(), spec.makespan()), key + "/makespan"))
    eng.prove_all(items)


def warm_caches(disp):
    disp.current_time()
    disp.available_operations()
    disp.scheduled_operations()
    disp.unscheduled_operations()
    disp.ongoing_operations()
    disp.completed_operations()
    disp.available_jobs()
    disp.available_machines()


def detached_checks(eng, inst, desc):
    """Observers built with subscribe=False are not subscribed (and receive nothing) until subscribed by hand, then exactly once."""
    from job_shop_lib.dispatching import Dispatcher, HistoryObserver, UnscheduledOperationsObserver
    from job_shop_lib.dispatching.feature_observers import (IsReadyObserver, DurationObserver, IsScheduledObserver,
                                                             RemainingOperationsObserver, IsCompletedObserver, PositionInJobObserver)
    from job_shop_lib.reinforcement_learning import MakespanReward, IdleTimeReward

    d = Dispatcher(inst)
    made = []
    for cls in (HistoryObserver, UnscheduledOperationsObserver, IsReadyObserver, DurationObserver, IsScheduledObserver,
                RemainingOperationsObserver, IsCompletedObserver, PositionInJobObserver, MakespanReward, IdleTimeReward):
        before = list(d.subscribers)
        try:
            o = cls(d, subscribe=False)
        except E.Unsupported:
            raise
        except Exception as ex:
            eng.fail(f"C10/detached/{cls.__name__}/constructor-raises-{type(ex).__name__}", f"{ex}"[:200])
            continue
        if any(s is o for s in d.subscribers):
            eng.fail(f"C10/detached/{cls.__name__}/subscribed-although-subscribe-false")
        made.append(o)
        # helper observers created as a side effect may subscribe themselves; the detached one must not
    first = D.op_by_id(inst, 0)
    d.dispatch(first, desc.machines[0][0])
    for o in made:
        if isinstance(o, HistoryObserver) and o.history:
            eng.fail("C10/detached/HistoryObserver/notified-while-not-subscribed")
        if hasattr(o, "rewards") and o.rewards:
            eng.fail(f"C10/detached/{type(o).__name__}/notified-while-not-subscribed")
    for o in made:
        d.subscribe(o)
        if sum(1 for s in d.subscribers if s is o) != 1:
            eng.fail(f"C10/detached/{type(o).__name__}/not-subscribed-exactly-once-after-subscribe")


def harness(eng, sp):
    from job_shop_lib.dispatching import Dispatcher, HistoryObserver
    from job_shop_lib.exceptions import ValidationError

    inst, desc = D.build_instance(eng, sp["shape"], sp["machines"], dmin=0)
    disp = Dispatcher(inst)
    ctx = Ctx()
    ctx.eng, ctx.desc, ctx.spec = eng, desc, Spec(desc)
    ctx.global_log = []
    ctx.tags = 0

    def next_tag():
        ctx.tags += 1
        return ctx.tags

    ctx.next_tag = next_tag
    Recorder = make_recorder_class(ctx)
    hist = HistoryObserver(disp)
    hist_state = dict(subscribed=True)
    unsubscribed = []   # tags of recorders that were unsubscribed, most recent last
    recorders = {}      # tag -> recorder (all ever created)
    subscribed = []     # tags in subscription order (model)
    expected = {}       # tag -> expected log
    hist_expected = []
    hist_starts = []

    def new_recorder():
        r = Recorder(disp)
        recorders[r.tag] = r
        expected[r.tag] = []
        subscribed.append(r.tag)
        return r

    def do_dispatch():
        warm_caches(disp)
        op, m = D.choose_dispatch(eng, desc, ctx.spec)
        ctx.spec.apply(op, m)   # recorders compare with the post-state
        ctx.global_log = []
        try:
            disp.dispatch(D.op_by_id(inst, op), m)
        except E.Unsupported:
            raise
        except Exception as ex:
            eng.fail("C10/exception-on-accepted-dispatch", f"{type(ex).__name__}: {ex}")
            raise E.PathAbort()
        eng.reachable("transition")
        for t in subscribed:
            expected[t].append(("update", op, m))
        if hist_state["subscribed"]:
            hist_expected.append((op, m))
            hist_starts.append(ctx.spec.start[op])
        if ctx.global_log != subscribed:
            eng.fail("C10/dispatch-notifications-not-once-each-in-subscription-order",
                     f"notified {ctx.global_log}, subscribed {subscribed}")
        eng.observe("start", ctx.spec.start[op])

    def verify():
        eng.reachable("state")
        for t, r in recorders.items():
            if r.log != expected[t]:
                eng.fail("C10/recorder-log-differs-from-events-while-subscribed", f"recorder {t}: {r.log} vs {expected[t]}")
        rec = [(s.operation.operation_id, s.machine_id) for s in hist.history]
        if rec != hist_expected:
            eng.fail("C10/history-observer-differs-from-dispatch-sequence", f"{rec} vs {hist_expected}")
        else:
            eng.prove(vand([veq(s.start_time, st) for s, st in zip(hist.history, hist_starts)])
                      if hist.history else True, "C10/history-observer-start-times")
        real = [getattr(s, "tag", None) for s in disp.subscribers if isinstance(s, Recorder)]
        if real != subscribed:
            eng.fail("C10/subscriber-list-differs", f"{real} vs {subscribed}")
        if sum(isinstance(s, HistoryObserver) for s in disp.subscribers) != (1 if hist_state["subscribed"] else 0):
            eng.fail("C10/singleton-observer-subscribed-twice-or-lost")

    if sp["mode"] == "plain":
        detached_checks(eng, inst, desc)
        new_recorder()
        new_recorder()
        for _ in range(desc.n_ops):
            do_dispatch()
            verify()
        return

    if sp["mode"] == "many":
        # many subscribers (12 recorders + the history observer): any one of them is unsubscribed (and possibly subscribed again)
        # before or between the dispatches; notification must stay once each, in subscription order
        for _ in range(12):
            new_recorder()
        when = eng.choice(desc.n_ops, "unsubscribe-before-dispatch")
        which = eng.choice(12, "which-recorder")
        again = eng.choice(2, "subscribe-again")
        for k in range(desc.n_ops):
            if k == when:
                t = subscribed[which]
                disp.unsubscribe(recorders[t])
                subscribed.remove(t)
                if again:
                    disp.subscribe(recorders[t])
                    subscribed.append(t)
                verify()
            do_dispatch()
            verify()
        return

    L = sp["length"]
    n_events = eng.choice(L - 1, "word-length") + 2
    for i in range(n_events):
        ev = sp["prefix"][i] if i < 2 else ALPHABET[eng.choice(len(ALPHABET), "event")]
        if ev == "D":
            if ctx.spec.is_complete():
                raise E.PathAbort()
            do_dispatch()
        elif ev == "I":
            ready = ctx.spec.ready_ops()
            bad = [o for o in range(desc.n_ops) if o not in ready]
            ctx.global_log = []
            try:
                if bad:
                    disp.dispatch(D.op_by_id(inst, bad[0]), desc.machines[bad[0]][0])
                else:
                    disp.dispatch(D.op_by_id(inst, ready[0]), desc.n_machines + 1)
                eng.fail("C10/invalid-dispatch-accepted")
            except E.Unsupported:
                raise
            except Exception:
                pass
            if ctx.global_log:
                eng.fail("C10/rejected-dispatch-notified-observers", f"{ctx.global_log}")
        elif ev == "S":
            new_recorder()
        elif ev == "U":
            if not subscribed:
                raise E.PathAbort()
            t = subscribed.pop(0)
            disp.unsubscribe(recorders[t])
            unsubscribed.append(t)
        elif ev == "t":
            if not unsubscribed:
                raise E.PathAbort()
            t = unsubscribed.pop()
            disp.subscribe(recorders[t])
            subscribed.append(t)
        elif ev == "h":
            if hist_state["subscribed"]:
                disp.unsubscribe(hist)
            else:
                disp.subscribe(hist)
            hist_state["subscribed"] = not hist_state["subscribed"]
        elif ev == "R":
            ctx.global_log = []
            disp.reset()
            ctx.spec = Spec(desc)
            for t in subscribed:
                expected[t].append(("reset",))
            if hist_state["subscribed"]:
                hist_expected.clear()
                hist_starts.clear()
            if ctx.global_log != subscribed:
                eng.fail("C10/reset-notifications-not-once-each-in-subscription-order", f"{ctx.global_log} vs {subscribed}")
        elif ev == "H":
            if not hist_state["subscribed"]:
                raise E.PathAbort()
            try:
                HistoryObserver(disp)
                eng.fail("C10/second-singleton-observer-accepted")
            except ValidationError:
                pass
        elif ev in "GC":
            before = list(disp.subscribers)
            if ev == "G":
                got = disp.create_or_get_observer(Recorder)
                want = subscribed[0] if subscribed else None
            else:
                if not subscribed:
                    raise E.PathAbort()
                last = subscribed[-1]
                got = disp.create_or_get_observer(Recorder, condition=lambda o, last=last: getattr(o, "tag", None) == last)
                want = last
            if want is None:
                if any(got is s for s in before):
                    eng.fail("C10/create_or_get-returned-foreign-observer")
                recorders[got.tag] = got
                expected[got.tag] = []
                subscribed.append(got.tag)
            elif got.tag != want:
                eng.fail("C10/create_or_get-did-not-return-the-matching-subscribed-observer", f"got {got.tag} want {want}")
                if got.tag not in recorders:
                    recorders[got.tag] = got
                    expected[got.tag] = []
                    subscribed.append(got.tag)
            hget = disp.create_or_get_observer(HistoryObserver) if hist_state["subscribed"] else hist
            if hget is not hist:
                eng.fail("C10/create_or_get-did-not-return-the-subscribed-history-observer")
        verify()


def big_models(sp):
    # solver-chosen large models (>= 2**24+1) of the path conditions, run on the un-instrumented library
    return True
