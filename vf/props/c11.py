"""C11 — incremental features equal a from-scratch recomputation."""
from __future__ import annotations

import itertools

from .. import drivers as D
from .. import engine as E
from .. import models
from ..spec import Spec, vand, vor, vnot, veq, vite, vmax, vmin, vsum, vcount
from . import common as C

ID = "C11"
ASSUMPTIONS = [
    "durations: integers >= 0 without filter, >= 1 with the dominated-operations filter installed; feature arrays are exact python "
    "objects behind the numpy facade (float32 rounding, exact below 2**24, is outside the claim)",
    "second-run mode: the observers are created on a fresh dispatcher after an earlier complete history (with its own observers) was played "
    "on the same instance object",
    "every observer is subscribed from the start, with all its supported feature types; values are demanded only for entities with work "
    "left: operations that are not completed (for IsReady/EarliestStartTime/Duration/PositionInJob: not scheduled), jobs and machines with "
    "an unscheduled operation; machine-level counts only on non-flexible structures",
    "definitions: IsReady = membership in available operations/machines/jobs; EarliestStartTime = forward propagation "
    "est(j,p) = max(est(j,p-1)+d(j,p-1), min over eligible machines of the machine's next free time) with est of the next operation of a "
    "job = max(job free, min machine free), minus current time; machine = min over its unscheduled operations, job = its next operation; "
    "Duration: operation = its duration (unscheduled) or its remaining duration as of dispatch or as of now (ongoing, either accepted), "
    "job/machine = sum of durations of unscheduled operations, optionally plus the remaining part of ongoing ones; IsScheduled: operation "
    "flag, machine/job = number of ongoing operations; PositionInJob = number of unscheduled predecessors; RemainingOperations = number of "
    "unscheduled operations; IsCompleted = 0 for every entity with work left",
    "the current time and the available sets used by the definitions are recomputed from instance + history (with a filter: through the "
    "filter criteria of C07 applied by the real filter on the dispatcher's ready list)",
]
STUBS = ["max", "min", "int (dispatcher module only)", "np facade"]
BUDGET = {"quick": 540, "thorough": 3300}
OBS = ["is_ready", "earliest_start_time", "duration", "is_scheduled", "position_in_job", "remaining_operations", "is_completed"]


def bounds(tier):
    if tier == "quick":
        return ("all 7 observers + composite of all: ordered shapes <=3 jobs <=4 ops, all assignments M<=2 (regular and irregular jobs, "
                "recirculation, unequal machine loads), flexible M<=2 on <=3 ops; filter none (d>=0) and dominated (d>=1) on <=3 ops and (2,2); "
                "composite from configs: every ordered pair of the 7 observer types on (2,1),(1,1),(2,2) M=2")
    return "quick + 5 ops M<=3 up to renaming (no filter), M=3 on <=4 ops, composite ordered triples"


def extra_models(sp):
    return models.numpy_facade_models()


def subspaces(tier):
    out = []
    s4, s3 = D.shapes(3, 4), D.shapes(3, 3)
    out += C.structure_subspaces(s4, 2, False, mode="observers", filter="none")
    out += C.structure_subspaces(s3, 2, True, only_flexible=True, mode="observers", filter="none")
    out += C.wide_subspaces(mode="observers", filter="none", pairs=((1, 8),)) + C.tall_subspaces(mode="observers", filter="none")
    out += C.structure_subspaces(s3 + [(2, 2)], 2, False, mode="observers", filter="dominated")
    out += C.structure_subspaces(D.shapes(2, 2), 2, True, only_flexible=True, mode="observers", filter="dominated")
    out += C.structure_subspaces(D.shapes(2, 3) + [(2, 2)], 2, False, canonical=True, mode="second-run", filter="none")
    for sh, ms in [([2, 1], [[0], [1], [1]]), ([1, 1], [[0], [0]]), ([2, 2], [[0], [1], [1], [0]]), ([1, 1], [[0, 1], [1]])]:
        for a, b in itertools.permutations(OBS, 2):
            out.append(dict(shape=sh, machines=ms, mode="composite", parts=[a, b], filter="none"))
    if tier == "thorough":
        out += C.structure_subspaces([s for s in D.shapes(3, 5) if sum(s) == 5], 3, False, canonical=True, mode="observers", filter="none")
        out += [sp for sp in C.structure_subspaces(s4, 3, False, canonical=True, mode="observers", filter="none")
                if max(m[0] for m in sp["machines"]) == 2]
        for a, b, c in itertools.permutations(OBS, 3):
            out.append(dict(shape=[2, 1], machines=[[0], [1], [1]], mode="composite", parts=[a, b, c], filter="none"))
    return out


def cost(sp):
    return C.cost(sp) * (1 if sp["mode"] == "composite" else 4) * (C.cost(sp) if sp["mode"] == "second-run" else 1)


def feat(o, ft):
    from job_shop_lib.dispatching.feature_observers import FeatureType

    arr = o.features.get(getattr(FeatureType, ft))
    return None if arr is None else [arr[i, 0] for i in range(arr.shape[0])]


def est_spec(desc, spec):
    est = {}
    for j, job in enumerate(desc.jobs):
        prev = None
        for p, o in enumerate(job):
            if o in spec.start:
                continue
            mf = [spec.mach_free[m] for m in desc.machines[o]]
            mfree = vmin(*mf) if len(mf) > 1 else mf[0]
            if prev is None:
                est[o] = vmax(spec.job_free[j], mfree)
            else:
                est[o] = vmax(est[prev] + desc.dur[prev], mfree)
            prev = o
    return est


def check_features(eng, desc, spec, disp, inst, observers, filt):
    n, J, M = desc.n_ops, desc.n_jobs, desc.n_machines
    ready = spec.ready_ops()
    if filt is None:
        avail = ready
    else:
        avail = [o.operation_id for o in filt(disp, [D.op_by_id(inst, o) for o in ready])]
    now = spec.min_start(avail)
    unsched = spec.unscheduled_ops()
    sched = spec.scheduled_ops()
    ongoing = {o: spec.end[o] > now for o in sched}
    job_left = [any(o not in spec.start for o in job) for job in desc.jobs]
    by_m = [[o for o in range(n) if m in desc.machines[o]] for m in range(M)]
    mach_left = [any(o not in spec.start for o in by_m[m]) for m in range(M)]
    items = []

    def add(cond, obs, what):
        items.append((cond, f"C11/{obs}/{what}"))

    o_ = observers.get("is_ready")
    if o_ is not None:
        f = feat(o_, "OPERATIONS")
        for o in unsched:
            add(veq(f[o], 1 if o in avail else 0), "is_ready", "operation-flag-differs-from-availability")
        f = feat(o_, "MACHINES")
        am = {m for o in avail for m in desc.machines[o]}
        for m in range(M):
            if mach_left[m]:
                add(veq(f[m], 1 if m in am else 0), "is_ready", "machine-flag-differs-from-availability")
        f = feat(o_, "JOBS")
        aj = {desc.job_of[o] for o in avail}
        for j in range(J):
            if job_left[j]:
                add(veq(f[j], 1 if j in aj else 0), "is_ready", "job-flag-differs-from-availability")
    o_ = observers.get("is_scheduled")
    if o_ is not None:
        f = feat(o_, "OPERATIONS")
        for o in range(n):
            if o in unsched:
                add(veq(f[o], 0), "is_scheduled", "unscheduled-operation-flagged")
            else:
                add(vimp_ongoing(ongoing[o], veq(f[o], 1)), "is_scheduled", "ongoing-operation-not-flagged")
        if not desc.flexible or True:
            f = feat(o_, "MACHINES")
            for m in range(M):
                if mach_left[m]:
                    add(veq(f[m], vcount([ongoing[o] for o in sched if spec.machine_of[o] == m])), "is_scheduled",
                        "machine-count-differs-from-ongoing-operations")
        f = feat(o_, "JOBS")
        for j in range(J):
            if job_left[j]:
                add(veq(f[j], vcount([ongoing[o] for o in sched if desc.job_of[o] == j])), "is_scheduled",
                    "job-count-differs-from-ongoing-operations")
    o_ = observers.get("position_in_job")
    if o_ is not None:
        f = feat(o_, "OPERATIONS")
        for o in unsched:
            add(veq(f[o], desc.pos_of[o] - spec.next_idx[desc.job_of[o]]), "position_in_job", "differs-from-number-of-unscheduled-predecessors")
    o_ = observers.get("remaining_operations")
    if o_ is not None:
        f = feat(o_, "JOBS")
        for j in range(J):
            if job_left[j]:
                add(veq(f[j], sum(1 for o in desc.jobs[j] if o not in spec.start)), "remaining_operations", "job-count")
        if not desc.flexible:
            f = feat(o_, "MACHINES")
            for m in range(M):
                if mach_left[m]:
                    add(veq(f[m], sum(1 for o in by_m[m] if o not in spec.start)), "remaining_operations", "machine-count")
    o_ = observers.get("is_completed")
    if o_ is not None:
        f = feat(o_, "OPERATIONS")
        for o in range(n):
            if o in unsched:
                add(veq(f[o], 0), "is_completed", "unscheduled-operation-flagged-completed")
            else:
                add(vimp_ongoing(ongoing[o], veq(f[o], 0)), "is_completed", "ongoing-operation-flagged-completed")
        f = feat(o_, "JOBS")
        for j in range(J):
            if job_left[j]:
                add(veq(f[j], 0), "is_completed", "job-with-unscheduled-operations-flagged-completed")
        f = feat(o_, "MACHINES")
        for m in range(M):
            if mach_left[m]:
                add(veq(f[m], 0), "is_completed", "machine-with-unscheduled-operations-flagged-completed")
    o_ = observers.get("duration")
    if o_ is not None:
        f = feat(o_, "OPERATIONS")
        for o in range(n):
            if o in unsched:
                add(veq(f[o], desc.dur[o]), "duration", "unscheduled-operation-differs-from-its-duration")
        rem_now = {o: vite(ongoing[o], spec.end[o] - vmax(spec.start[o], now), 0) for o in sched}
        f = feat(o_, "JOBS")
        for j in range(J):
            if job_left[j]:
                base = vsum([desc.dur[o] for o in desc.jobs[j] if o not in spec.start])
                extra = vsum([rem_now[o] for o in desc.jobs[j] if o in spec.start])
                add(vor(veq(f[j], base), veq(f[j], base + extra)), "duration", "job-differs-from-remaining-work")
        if not desc.flexible:
            f = feat(o_, "MACHINES")
            for m in range(M):
                if mach_left[m]:
                    base = vsum([desc.dur[o] for o in by_m[m] if o not in spec.start])
                    extra = vsum([rem_now[o] for o in by_m[m] if o in spec.start])
                    add(vor(veq(f[m], base), veq(f[m], base + extra)), "duration", "machine-differs-from-remaining-work")
    o_ = observers.get("earliest_start_time")
    if o_ is not None:
        est = est_spec(desc, spec)
        f = feat(o_, "OPERATIONS")
        for o in unsched:
            what = "ready-operation-differs-from-max-of-job-and-machine-free-time" if o in ready else \
                "later-operation-differs-from-forward-propagation"
            add(veq(f[o], est[o] - now), "earliest_start_time", what)
        f = feat(o_, "JOBS")
        for j in range(J):
            if job_left[j]:
                add(veq(f[j], est[desc.jobs[j][spec.next_idx[j]]] - now), "earliest_start_time", "job-differs-from-its-next-operation")
        f = feat(o_, "MACHINES")
        for m in range(M):
            if mach_left[m]:
                xs = [est[o] for o in by_m[m] if o not in spec.start]
                add(veq(f[m], (vmin(*xs) if len(xs) > 1 else xs[0]) - now), "earliest_start_time",
                    "machine-differs-from-min-over-its-unscheduled-operations")
    eng.prove_all(items)


def vimp_ongoing(ongoing, cond):
    return E.vimp(ongoing, cond)


def build_observers(eng, disp):
    from job_shop_lib.dispatching.feature_observers import FeatureObserverType, feature_observer_factory

    observers = {}
    for t in FeatureObserverType:
        if t.value == "composite":
            continue
        try:
            observers[t.value] = feature_observer_factory(t, dispatcher=disp)
        except E.Unsupported:
            raise
        except Exception as ex:
            eng.fail(f"C11/{t.value}/constructor-raises-{type(ex).__name__}", f"{ex}"[:200])
    return observers


def check_composite(eng, comp, parts, key="C11/composite"):
    from job_shop_lib.dispatching.feature_observers import FeatureType

    items = []
    for ft in FeatureType:
        cols, names = [], []
        for o in parts:
            if ft in o.features:
                arr = o.features[ft]
                base = type(o).__name__.replace("Observer", "")
                for c in range(arr.shape[1]):
                    cols.append([arr[i, c] for i in range(arr.shape[0])])
                    names.append(base if arr.shape[1] == 1 else f"{base}_{c}")
        got = comp.features.get(ft)
        if not cols:
            if got is not None and got.size:
                eng.fail(key + "/feature-type-without-components-present", ft.value)
            continue
        if got is None or tuple(got.shape) != (len(cols[0]), len(cols)):
            eng.fail(key + "/shape-differs-from-concatenation", f"{ft.value}: {None if got is None else got.shape}")
            continue
        if list(comp.column_names[ft]) != names:
            eng.fail(key + "/column-names-differ", f"{list(comp.column_names[ft])} vs {names}")
        for c, col in enumerate(cols):
            for i, v in enumerate(col):
                x = got[i, c]
                if isinstance(x, float) and x != x and isinstance(v, float) and v != v:
                    continue
                items.append((veq(x, v), key + "/differs-from-column-wise-concatenation"))
    eng.prove_all(items)
    try:
        dfs = comp.features_as_dataframe
        for ft, df in dfs.items():
            if list(df.columns) != list(comp.column_names[ft]):
                eng.fail(key + "/dataframe-columns-differ-from-column-names", ft.value)
    except E.Unsupported:
        raise
    except Exception as ex:
        eng.fail(key + f"/features_as_dataframe-raises-{type(ex).__name__}", f"{ex}"[:200])


def harness(eng, sp):
    from job_shop_lib.dispatching import Dispatcher, DispatcherObserverConfig
    from job_shop_lib.dispatching.feature_observers import CompositeFeatureObserver, FeatureObserverType

    filtered = sp["filter"] != "none"
    inst, desc = D.build_instance(eng, sp["shape"], sp["machines"], dmin=1 if filtered else 0)
    filt = C.make_filter(sp["filter"]) if filtered else None
    if sp["mode"] == "second-run":
        # an earlier complete history with all observers on ANOTHER dispatcher over the same instance object
        d0 = Dispatcher(inst)
        build_observers(eng, d0)
        s0 = Spec(desc)
        for _ in range(desc.n_ops):
            op, m = D.choose_dispatch(eng, desc, s0)
            d0.dispatch(D.op_by_id(inst, op), m)
            s0.apply(op, m)
    disp = Dispatcher(inst, ready_operations_filter=filt)
    spec = Spec(desc)
    if sp["mode"] == "composite":
        try:
            comp = CompositeFeatureObserver.from_feature_observer_configs(
                disp, [DispatcherObserverConfig(FeatureObserverType(p)) for p in sp["parts"]])
        except E.Unsupported:
            raise
        except Exception as ex:
            if "earliest_start_time" in sp["parts"] and isinstance(ex, ValueError):
                eng.fail("C11/earliest_start_time/constructor-raises-ValueError", f"{ex}"[:200])
            else:
                eng.fail(f"C11/composite/constructor-raises-{type(ex).__name__}", f"{ex}"[:200])
            return
        observers = None
    else:
        observers = build_observers(eng, disp)
        try:
            comp = CompositeFeatureObserver(disp, feature_observers=list(observers.values()))
        except E.Unsupported:
            raise
        except Exception as ex:
            eng.fail(f"C11/composite/constructor-raises-{type(ex).__name__}", f"{ex}"[:200])
            comp = None
    nested = None
    if comp is not None:
        try:
            nested = CompositeFeatureObserver(disp, feature_observers=[comp])   # a composite of a composite
        except E.Unsupported:
            raise
        except Exception as ex:
            eng.fail(f"C11/composite/nested-constructor-raises-{type(ex).__name__}", f"{ex}"[:200])
    for k in range(desc.n_ops + 1):
        eng.reachable("state")
        if observers is not None:
            check_features(eng, desc, spec, disp, inst, observers, filt)
        if comp is not None:
            check_composite(eng, comp, comp.feature_observers)
        if nested is not None:
            check_composite(eng, nested, [comp], key="C11/composite/nested")
        if k == desc.n_ops:
            break
        op, m = D.choose_dispatch(eng, desc, spec)
        try:
            disp.dispatch(D.op_by_id(inst, op), m)
        except E.Unsupported:
            raise
        except E.PathAbort:
            raise
        except Exception as ex:
            eng.fail(f"C11/observer-update-raises-{type(ex).__name__}", f"{ex}"[:200])
            return
        spec.apply(op, m)
        eng.reachable("transition")
        eng.observe("now", disp.current_time())
    if comp is not None:
        # 'always': also after a reset and in the next episode
        disp.reset()
        check_composite(eng, comp, comp.feature_observers, key="C11/composite/after-reset")
        spec2 = Spec(desc)
        op, m = spec2.ready_ops()[0], desc.machines[spec2.ready_ops()[0]][0]
        disp.dispatch(D.op_by_id(inst, op), m)
        check_composite(eng, comp, comp.feature_observers, key="C11/composite/after-reset")
        if nested is not None:
            check_composite(eng, nested, [comp], key="C11/composite/nested-after-reset")
