"""C12 — reset makes everything indistinguishable from new."""
from __future__ import annotations

import itertools

from .. import drivers as D
from .. import engine as E
from .. import models
from ..spec import Spec
from . import common as C

ID = "C12"
ASSUMPTIONS = [
    "durations are arbitrary integers >= 0; feature arrays exact behind the numpy facade",
    "observer kinds: the 7 feature observers, composite, UnscheduledOperations, History, MakespanReward, IdleTimeReward, "
    "ResidualGraphUpdater over the disjunctive and the agent-task graph; created in the stated order on one dispatcher (implicitly created "
    "helper observers are snapshotted too)",
    "a first episode of every length 0..n (every history prefix), reset(), then every complete history; a twin with the same observers on a "
    "fresh dispatcher performs only the second history; after the reset and after each step all public observer state, the dispatcher state "
    "and query answers must be equal (symbolic leaves by z3 equality)",
    "late sub-spaces: the observers are created on a dispatcher that has already dispatched a prefix (and answered queries), then reset()",
    "shared-graph sub-spaces: two environments built from one JobShopGraph object; after playing in one, reset() of the other must equal a "
    "brand-new environment",
    "env mode: SingleJobShopGraphEnv - first episode prefix, env.reset(), second episode, against a fresh environment: observation, reward, "
    "done, truncated and the graph must be equal at every step",
]
STUBS = ["max", "min", "int (dispatcher module only)", "np facade (feature observers, instance arrays, RL modules)"]
BUDGET = {"quick": 540, "thorough": 3300}
KINDS = ["is_ready", "earliest_start_time", "duration", "is_scheduled", "position_in_job", "remaining_operations", "is_completed",
         "composite", "unsched", "history", "mk", "idle", "resid_disj", "resid_at"]
FEATURE_KINDS = KINDS[:7]


def bounds(tier):
    if tier == "quick":
        return ("single observer kinds: ordered shapes <=3 jobs <=3 ops (thorough: and (2,2)), assignments M<=2 up to machine renaming (thorough: all), flexible on <=2 ops; every ordered pair "
                "of the 14 kinds on (2,1) (thorough: and (1,1,1)) with fixed machines; env mode: 4 (thorough: all 12) combinations of 2 graph builders x 2 rewards x 3 observer configurations on "
                "shapes <=3 ops M<=2; every first-episode prefix and every second-episode history")
    return "quick + every ordered triple of kinds on (2,1); single kinds on 4 ops; env mode on 4 ops"


def extra_models(sp):
    return models.numpy_facade_models(include_rl=True)


def valid_order(kinds):
    if "resid_disj" in kinds and "resid_at" in kinds:
        return False   # the graph updater is a singleton observer
    if "composite" in kinds:
        i = kinds.index("composite")
        if not any(k in FEATURE_KINDS for k in kinds[:i]):
            return False
    return True


def subspaces(tier):
    out = []
    s3 = D.shapes(3, 3) + ([(2, 2)] if tier == "thorough" else [])
    for k in KINDS:
        if k == "composite":
            continue
        out += C.structure_subspaces(s3, 2, False, canonical=(tier == "quick"), mode="observers", kinds=[k])
        out += C.structure_subspaces(D.shapes(2, 2), 2, True, only_flexible=True, mode="observers", kinds=[k])
    for k in KINDS:
        if k != "composite":
            out += C.structure_subspaces(D.shapes(2, 3), 2, False, canonical=True, mode="observers", kinds=[k], late=True)
            out += C.tall_subspaces(mode="observers", kinds=[k], shapes=((7, 3),), histories=("reverse", "roundrobin"))
    fixed = [([2, 1], [[0], [1], [0]]), ([1, 1, 1], [[0], [1], [1]])]
    for sh, ms in (fixed[:1] if tier == "quick" else fixed):
        for a, b in itertools.permutations(KINDS, 2):
            if valid_order([a, b]):
                out.append(dict(shape=sh, machines=ms, mode="observers", kinds=[a, b]))
    envs = [dict(builder=b, reward=r, obs=o) for b in ("disj", "at") for r in ("mk", "idle") for o in (0, 1, 2)]
    for e in (envs[0], envs[7]):
        out += C.structure_subspaces(D.shapes(2, 3), 2, False, canonical=True, mode="env", shared_graph=True, **e)
    if tier == "quick":
        envs = [envs[i] for i in (0, 4, 7, 11)]
    for e in envs:
        out += C.structure_subspaces(D.shapes(3, 3), 2, False, canonical=(tier == "quick"), mode="env", **e)
    if tier == "thorough":
        for a, b, c in itertools.permutations(KINDS, 3):
            if valid_order([a, b, c]):
                out.append(dict(shape=[2, 1], machines=[[0], [1], [0]], mode="observers", kinds=[a, b, c]))
        s4 = [s for s in D.shapes(3, 4) if sum(s) == 4]
        for k in KINDS:
            if k != "composite":
                out += C.structure_subspaces(s4, 2, False, mode="observers", kinds=[k])
        for e in envs[:4]:
            out += C.structure_subspaces(s4, 2, False, mode="env", **e)
    return out


def cost(sp):
    n = sum(sp["shape"])
    return C.cost(dict(sp, filter="none")) ** 2 * n * (3 if sp["mode"] == "env" else 1)


def make(kind, disp, inst):
    from job_shop_lib.dispatching import HistoryObserver, UnscheduledOperationsObserver
    from job_shop_lib.dispatching.feature_observers import CompositeFeatureObserver, feature_observer_factory
    from job_shop_lib.reinforcement_learning import MakespanReward, IdleTimeReward
    from job_shop_lib.graphs import build_disjunctive_graph, build_agent_task_graph
    from job_shop_lib.graphs.graph_updaters import ResidualGraphUpdater

    if kind == "unsched":
        return disp.create_or_get_observer(UnscheduledOperationsObserver)
    if kind == "history":
        return disp.create_or_get_observer(HistoryObserver)
    if kind == "mk":
        return MakespanReward(disp)
    if kind == "idle":
        return IdleTimeReward(disp)
    if kind == "resid_disj":
        return ResidualGraphUpdater(disp, build_disjunctive_graph(inst))
    if kind == "resid_at":
        return ResidualGraphUpdater(disp, build_agent_task_graph(inst))
    if kind == "composite":
        return CompositeFeatureObserver(disp)
    return feature_observer_factory(kind, dispatcher=disp)


def snapshot(disp):
    return dict(dispatcher=D.snap_dispatcher(disp, queries=True), observers=[D.snap_observer(o) for o in disp.subscribers])


def first_difference(a, b):
    """Name the first observer whose snapshot differs (for a specific key)."""
    for x, y in zip(a["observers"], b["observers"]):
        d, conds = D.snap_equal(x, y)
        if d is not None:
            return x["type"]
    return None


def compare(eng, A, B, when, kinds):
    """Observers are compared in subscription order; the first one that differs names the violation (same in both modes)."""
    sa, sb = snapshot(A), snapshot(B)
    if len(sa["observers"]) != len(sb["observers"]):
        eng.fail(f"C12/subscriber-lists-differ-{when}", f"kinds={kinds}")
        return
    for x, y in zip(sa["observers"], sb["observers"]):
        if not D.prove_snap_equal(eng, x, y, f"C12/{x['type']}/differs-from-fresh-{when}", f"kinds={kinds}"):
            return
    D.prove_snap_equal(eng, sa["dispatcher"], sb["dispatcher"], f"C12/dispatcher/differs-from-fresh-{when}")


def harness(eng, sp):
    from job_shop_lib.dispatching import Dispatcher

    inst, desc = D.build_instance(eng, sp["shape"], sp["machines"], dmin=0)
    if sp["mode"] == "env":
        return env_harness(eng, sp, inst, desc)
    kinds = sp["kinds"]
    A, B = Dispatcher(inst), Dispatcher(inst)
    late = sp.get("late")
    try:
        for k in kinds:
            if not late:
                make(k, A, inst)
            make(k, B, inst)
    except E.Unsupported:
        raise
    except Exception as ex:
        eng.fail(f"C12/constructor-raises-{type(ex).__name__}", f"{kinds}: {ex}"[:200])
        return
    n1 = eng.choice(desc.n_ops + 1, "first-episode-length")
    s1 = Spec(desc)
    try:
        for _ in range(n1):
            op, m = D.choose_dispatch(eng, desc, s1)
            A.dispatch(D.op_by_id(inst, op), m)
            s1.apply(op, m)
        if late:
            # the observers are created only now, on a dispatcher that has already dispatched; after reset() they must equal new ones
            A.current_time()
            A.uncompleted_operations()
            for k in kinds:
                make(k, A, inst)
        A.reset()
    except E.Unsupported:
        raise
    except E.PathAbort:
        raise
    except Exception as ex:
        eng.fail(f"C12/first-episode-or-reset-raises-{type(ex).__name__}", f"{kinds}: {ex}"[:200])
        return
    eng.reachable("state")
    compare(eng, A, B, "after-reset", kinds)
    spec = Spec(desc)
    for _ in range(desc.n_ops):
        op, m = D.choose_dispatch(eng, desc, spec)
        try:
            A.dispatch(D.op_by_id(inst, op), m)
            B.dispatch(D.op_by_id(inst, op), m)
        except E.Unsupported:
            raise
        except E.PathAbort:
            raise
        except Exception as ex:
            eng.fail(f"C12/second-episode-raises-{type(ex).__name__}", f"{kinds}: {ex}"[:200])
            return
        spec.apply(op, m)
        eng.reachable("transition")
        eng.reachable("state")
        compare(eng, A, B, "in-second-episode", kinds)
    eng.observe("mk", A.schedule.makespan())


OBS_CFGS = [
    ["is_ready", "is_scheduled", "remaining_operations"],
    ["earliest_start_time", "duration", "is_completed"],
    ["is_completed", "position_in_job", "remaining_operations", "duration"],
]


def make_env(sp, inst, graph=None):
    from job_shop_lib.dispatching import DispatcherObserverConfig
    from job_shop_lib.dispatching.feature_observers import FeatureObserverType
    from job_shop_lib.graphs import build_disjunctive_graph, build_agent_task_graph
    from job_shop_lib.reinforcement_learning import SingleJobShopGraphEnv, MakespanReward, IdleTimeReward

    g = graph if graph is not None else (build_disjunctive_graph if sp["builder"] == "disj" else build_agent_task_graph)(inst)
    cfgs = [DispatcherObserverConfig(FeatureObserverType(t)) for t in OBS_CFGS[sp["obs"]]]
    rw = MakespanReward if sp["reward"] == "mk" else IdleTimeReward
    return SingleJobShopGraphEnv(g, cfgs, reward_function_config=DispatcherObserverConfig(rw), ready_operations_filter=None)


def env_state(env, step_result):
    obs = step_result[0]
    rest = list(step_result[1:4]) if len(step_result) > 2 else []
    return dict(obs=D.snap_value(obs), rest=rest, graph=D.snap_graph(env.job_shop_graph),
                rewards=list(env.reward_function.rewards), dispatcher=D.snap_dispatcher(env.dispatcher, queries=True))


def env_harness(eng, sp, inst, desc):
    if sp.get("shared_graph"):
        return shared_graph_harness(eng, sp, inst, desc)
    try:
        A, B = make_env(sp, inst), make_env(sp, inst)
    except E.Unsupported:
        raise
    except Exception as ex:
        eng.fail(f"C12/env/constructor-raises-{type(ex).__name__}", f"{ex}"[:200])
        return
    n1 = eng.choice(desc.n_ops + 1, "first-episode-length")
    s1 = Spec(desc)
    try:
        A.reset()
        for _ in range(n1):
            op, m = D.choose_dispatch(eng, desc, s1)
            A.step((desc.job_of[op], m))
            s1.apply(op, m)
        ra = A.reset()
        rb = B.reset()
    except E.Unsupported:
        raise
    except E.PathAbort:
        raise
    except Exception as ex:
        eng.fail(f"C12/env/first-episode-or-reset-raises-{type(ex).__name__}", f"{ex}"[:200])
        return
    eng.reachable("state")
    D.prove_snap_equal(eng, env_state(A, ra), env_state(B, rb), "C12/env/differs-from-fresh-after-reset")
    spec = Spec(desc)
    for _ in range(desc.n_ops):
        op, m = D.choose_dispatch(eng, desc, spec)
        try:
            ra = A.step((desc.job_of[op], m))
            rb = B.step((desc.job_of[op], m))
        except E.Unsupported:
            raise
        except E.PathAbort:
            raise
        except Exception as ex:
            eng.fail(f"C12/env/second-episode-raises-{type(ex).__name__}", f"{ex}"[:200])
            return
        spec.apply(op, m)
        eng.reachable("transition")
        eng.reachable("state")
        D.prove_snap_equal(eng, env_state(A, ra), env_state(B, rb), "C12/env/differs-from-fresh-in-second-episode")
    eng.observe("mk", A.dispatcher.schedule.makespan())


def shared_graph_harness(eng, sp, inst, desc):
    """Two environments built from ONE JobShopGraph object: playing in one must not leak into the other, whose reset() must give
    what a brand-new environment gives."""
    from job_shop_lib.graphs import build_disjunctive_graph, build_agent_task_graph

    g = (build_disjunctive_graph if sp["builder"] == "disj" else build_agent_task_graph)(inst)
    try:
        X, Y, F = make_env(sp, inst, graph=g), make_env(sp, inst, graph=g), make_env(sp, inst)
        X.reset()
        Y.reset()
        s1 = Spec(desc)
        for _ in range(1 + eng.choice(desc.n_ops, "steps-in-the-other-env")):
            op, m = D.choose_dispatch(eng, desc, s1)
            X.step((desc.job_of[op], m))
            s1.apply(op, m)
        ry = Y.reset()
        rf = F.reset()
    except E.Unsupported:
        raise
    except E.PathAbort:
        raise
    except Exception as ex:
        eng.fail(f"C12/env/shared-graph-raises-{type(ex).__name__}", f"{ex}"[:200])
        return
    eng.reachable("state")
    D.prove_snap_equal(eng, env_state(Y, ry), env_state(F, rf), "C12/env/shared-graph-object/differs-from-fresh-after-reset")
    spec = Spec(desc)
    for _ in range(desc.n_ops):
        op, m = D.choose_dispatch(eng, desc, spec)
        ry = Y.step((desc.job_of[op], m))
        rf = F.step((desc.job_of[op], m))
        spec.apply(op, m)
        eng.reachable("transition")
        D.prove_snap_equal(eng, env_state(Y, ry), env_state(F, rf), "C12/env/shared-graph-object/differs-from-fresh-in-episode")
    eng.observe("mk", Y.dispatcher.schedule.makespan())
