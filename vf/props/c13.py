"""C13 — dense rewards add up to the sparse objective."""
from __future__ import annotations

from .. import drivers as D
from .. import engine as E
from ..spec import Spec, vand, veq, vsum
from . import common as C
from . import c19

ID = "C13"
ASSUMPTIONS = [
    "durations are arbitrary integers >= 0 (z3 Int)",
    "idle time of a machine = end of its last operation minus the sum of the durations on it (machines without operations contribute 0)",
    "reset mode: a first episode of every length, Dispatcher.reset(), then every history: the sums restart from zero",
    "late mode: observers created after a prefix of every length: one reward per later dispatch, sums equal minus the increase of the "
    "makespan / idle time since creation",
    "multi mode: MultiJobShopGraphEnv over generated 2x2 instances (RNG model of C19, symbolic durations in [1,9]); the reward function is "
    "kept or replaced through the public reward_function setter after reset(); one decision sequence per RNG outcome",
    "env mode: SingleJobShopGraphEnv (disjunctive graph, IsReady features, default and idle-time reward) - step() must return the reward "
    "emitted for that step; gymnasium/networkx/numpy run unmodified on concrete arrays, durations stay symbolic in the dispatcher",
]
STUBS = ["max", "min", "int (dispatcher module only)", "random (generator modules, multi mode)"]
XHAIR_PREFIX = "c13_"   # leaf kernels re-decided by CrossHair (vf/xhair/kernels.py)
BUDGET = {"quick": 420, "thorough": 2400}


def bounds(tier):
    if tier == "quick":
        return ("plain: ordered shapes <=3 jobs <=4 ops, all assignments M<=2; flexible M<=2 on <=3 ops; reset: shapes <=3 ops + (2,2) M<=2 "
                "(incl. flexible <=2 ops) and 4 ops up to renaming; plain also on 5 ops M<=3 up to renaming; env: shapes <=3 ops M<=2 non-flexible and flexible <=2 ops, both reward classes; all histories")
    return "quick + 5 ops and (2,2,2),(3,3),(3,2,1),(4,2) M<=3 up to renaming (plain); reset and env on <=4 ops; flexible on 4 ops"


def subspaces(tier):
    out = []
    s4, s3, s2 = D.shapes(3, 4), D.shapes(3, 3), D.shapes(2, 2)
    out += C.structure_subspaces(s4, 2, False, mode="plain")
    out += C.structure_subspaces(s3, 2, True, only_flexible=True, mode="plain")
    out += C.structure_subspaces(D.shapes(2, 3), 2, False, mode="plain", manual=True)
    out += C.wide_subspaces(mode="plain") + C.tall_subspaces(mode="plain")
    out += C.structure_subspaces(D.shapes(3, 3) + [(2, 2)], 2, False, canonical=True, mode="late")
    out += C.structure_subspaces(D.shapes(2, 2), 2, True, only_flexible=True, mode="late")
    rs = s3 + [(2, 2)] if tier == "quick" else s4
    out += C.structure_subspaces(rs, 2, False, mode="reset")
    out += C.structure_subspaces(s2 if tier == "quick" else s3, 2, True, only_flexible=True, mode="reset")
    for rw in ("makespan", "idle"):
        out += C.structure_subspaces(s3 if tier == "quick" else s4, 2, False, mode="env", reward=rw)
        out += C.structure_subspaces(s2 if tier == "quick" else s3, 2, True, only_flexible=True, mode="env", reward=rw)
    for rw in ("makespan", "idle"):
        for swap in (None, "idle" if rw == "makespan" else "makespan"):     # same class again would trip the singleton guard
            out.append(dict(mode="multi", shape=[1], machines=[[0]], reward=rw, swap=swap))
    out += C.structure_subspaces([s for s in D.shapes(3, 5) if sum(s) == 5], 3, False, canonical=True, mode="plain")
    out += C.structure_subspaces([s for s in s4 if sum(s) == 4], 2, False, canonical=True, mode="reset")
    if tier == "thorough":
        out += C.structure_subspaces([s for s in s4 if sum(s) == 4], 2, True, only_flexible=True, mode="plain")
        out += C.structure_subspaces([(2, 2, 2), (3, 3), (3, 2, 1), (4, 2)], 3, False, canonical=True, mode="plain")
    return out


def cost(sp):
    if sp["mode"] == "multi":
        return 200
    return C.cost(sp) * {"plain": 1, "reset": 3, "env": 4, "late": 3}[sp["mode"]]


def extra_models(sp):
    import job_shop_lib.generation._general_instance_generator as G
    import job_shop_lib.generation._instance_generator as I

    return [(G, "random", c19.RNG), (I, "random", c19.RNG)] if sp["mode"] == "multi" else []


def check_rewards(eng, mk, idle, spec, k, tag):
    for name, obs in (("makespan", mk), ("idle", idle)):
        if obs is None:
            continue
        if len(obs.rewards) != k:
            eng.fail(f"C13/{tag}/{name}/not-exactly-one-reward-per-dispatch", f"{len(obs.rewards)} rewards after {k} dispatches")
            return False
    items = []
    if mk is not None:
        items += [(r <= 0, f"C13/{tag}/makespan/positive-reward") for r in mk.rewards]
        items.append((veq(vsum(mk.rewards), 0 - spec.makespan()), f"C13/{tag}/makespan/sum-differs-from-minus-makespan"))
        if k:
            items.append((veq(mk.last_reward, mk.rewards[-1]), f"C13/{tag}/makespan/last_reward"))
    if idle is not None:
        items += [(r <= 0, f"C13/{tag}/idle/positive-reward") for r in idle.rewards]
        items.append((veq(vsum(idle.rewards), 0 - spec.idle_time()), f"C13/{tag}/idle/sum-differs-from-minus-idle-time"))
        if k:
            items.append((veq(idle.last_reward, idle.rewards[-1]), f"C13/{tag}/idle/last_reward"))
    eng.prove_all(items)
    return True


def harness(eng, sp):
    from job_shop_lib.dispatching import Dispatcher
    from job_shop_lib.reinforcement_learning import MakespanReward, IdleTimeReward

    mode = sp["mode"]
    if mode == "multi":
        return multi_harness(eng, sp)
    inst, desc = D.build_instance(eng, sp["shape"], sp["machines"], dmin=0)
    if mode == "env":
        return env_harness(eng, sp, inst, desc)
    if mode == "late":
        return late_harness(eng, sp, inst, desc)
    disp = Dispatcher(inst)
    if sp.get("manual"):
        # created detached and subscribed by hand: still exactly one reward per dispatch
        mk, idle = MakespanReward(disp, subscribe=False), IdleTimeReward(disp, subscribe=False)
        disp.subscribe(mk)
        disp.subscribe(idle)
    else:
        mk, idle = MakespanReward(disp), IdleTimeReward(disp)
    if mode == "reset":
        n1 = 1 + eng.choice(desc.n_ops, "first-episode-length")
        s1 = Spec(desc)
        for _ in range(n1):
            op, m = D.choose_dispatch(eng, desc, s1)
            disp.dispatch(D.op_by_id(inst, op), m)
            s1.apply(op, m)
        disp.reset()
    tag = "after-reset" if mode == "reset" else "first-episode"
    spec = Spec(desc)
    check_rewards(eng, mk, idle, spec, 0, tag)
    for k in range(desc.n_ops):
        op, m = D.choose_dispatch(eng, desc, spec)
        try:
            disp.dispatch(D.op_by_id(inst, op), m)
        except E.Unsupported:
            raise
        except Exception as ex:
            eng.fail(f"C13/{tag}/exception", f"{type(ex).__name__}: {ex}")
            return
        spec.apply(op, m)
        eng.reachable("transition")
        eng.reachable("state")
        if not check_rewards(eng, mk, idle, spec, k + 1, tag):
            return
        eng.observe("r", [mk.rewards[-1], idle.rewards[-1]])


def env_harness(eng, sp, inst, desc):
    from job_shop_lib.dispatching import DispatcherObserverConfig
    from job_shop_lib.dispatching.feature_observers import FeatureObserverType
    from job_shop_lib.graphs import build_disjunctive_graph
    from job_shop_lib.reinforcement_learning import SingleJobShopGraphEnv, MakespanReward, IdleTimeReward

    cls = MakespanReward if sp["reward"] == "makespan" else IdleTimeReward
    env = SingleJobShopGraphEnv(
        build_disjunctive_graph(inst),
        [DispatcherObserverConfig(FeatureObserverType.IS_READY)],
        reward_function_config=DispatcherObserverConfig(cls),
        ready_operations_filter=None,
    )
    for episode in range(2):
        env.reset()
        spec = Spec(desc)
        rf = env.reward_function
        total = 0
        for k in range(desc.n_ops):
            op, m = D.choose_dispatch(eng, desc, spec)
            j = desc.job_of[op]
            act_m = -1 if (len(desc.machines[op]) == 1 and k % 2 == 0) else m
            try:
                _, reward, done, trunc, _ = env.step((j, act_m))
            except E.Unsupported:
                raise
            except Exception as ex:
                eng.fail("C13/env/exception-in-step", f"{type(ex).__name__}: {ex}")
                return
            spec.apply(op, m)
            eng.reachable("transition")
            eng.reachable("state")
            if len(rf.rewards) != k + 1:
                eng.fail("C13/env/not-exactly-one-reward-per-step", f"{len(rf.rewards)} after {k + 1} (episode {episode})")
                return
            total = total + reward
            expect = 0 - spec.makespan() if sp["reward"] == "makespan" else 0 - spec.idle_time()
            eng.prove_all([(veq(reward, rf.rewards[-1]), "C13/env/step-reward-is-not-the-reward-emitted-for-the-step"),
                           (veq(total, expect), f"C13/env/{sp['reward']}/sum-of-step-rewards-differs-from-objective")])
            eng.observe("r", reward)
        if episode == 0 and desc.n_ops > 2:
            break  # second episode only on the smallest instances (cost)


def multi_harness(eng, sp):
    import job_shop_lib.generation._general_instance_generator as G
    import job_shop_lib.generation._instance_generator as I

    c19.RNG.reset(eng)
    undo = []
    if eng.mode == "conc":
        for mod in (G, I):
            undo.append((mod, mod.random))
            mod.random = c19.RNG
    try:
        _multi(eng, sp)
    finally:
        for mod, val in undo:
            mod.random = val


def _multi(eng, sp):
    """MultiJobShopGraphEnv on generated 2x2 instances (durations symbolic in [1,9], every RNG outcome): the reward returned by
    step() is the one reward emitted for the step, also after the reward function was replaced through the public setter."""
    from job_shop_lib.dispatching import DispatcherObserverConfig
    from job_shop_lib.dispatching.feature_observers import FeatureObserverType
    from job_shop_lib.generation import GeneralInstanceGenerator
    from job_shop_lib.graphs import build_disjunctive_graph
    from job_shop_lib.reinforcement_learning import MultiJobShopGraphEnv, MakespanReward, IdleTimeReward
    from ..spec import Desc

    classes = {"makespan": MakespanReward, "idle": IdleTimeReward}
    gen = GeneralInstanceGenerator(num_jobs=2, num_machines=2, duration_range=(1, 9), seed=5)
    env = MultiJobShopGraphEnv(gen, [DispatcherObserverConfig(FeatureObserverType.IS_READY)], graph_initializer=build_disjunctive_graph,
                               reward_function_config=DispatcherObserverConfig(classes[sp["reward"]]), ready_operations_filter=None)
    env.reset()
    kind = sp["reward"]
    if sp["swap"]:
        env.reward_function = classes[sp["swap"]](env.dispatcher)      # public setter, on a live environment
        kind = sp["swap"]
    inst = env.instance
    desc = Desc([len(j) for j in inst.jobs], [list(o.machines) for j in inst.jobs for o in j], [o.duration for j in inst.jobs for o in j])
    spec = Spec(desc)
    rf = env.reward_function
    total = 0
    tag = f"C13/multi-env/{'swapped-to-' if sp['swap'] else ''}{kind}"
    for k in range(desc.n_ops):
        op, m = D.choose_dispatch(eng, desc, spec)
        try:
            _, reward, done, trunc, _ = env.step((desc.job_of[op], m if k % 2 else -1))
        except E.Unsupported:
            raise
        except Exception as ex:
            eng.fail(tag + "/exception-in-step", f"{type(ex).__name__}: {ex}")
            return
        spec.apply(op, m)
        eng.reachable("transition")
        eng.reachable("state")
        if len(rf.rewards) != k + 1:
            eng.fail(tag + "/not-exactly-one-reward-per-step", f"{len(rf.rewards)} after {k + 1}")
            return
        total = total + reward
        expect = 0 - spec.makespan() if kind == "makespan" else 0 - spec.idle_time()
        eng.prove_all([(veq(reward, rf.rewards[-1]), tag + "/step-reward-is-not-the-reward-emitted-for-the-step"),
                       (veq(total, expect), tag + "/sum-of-step-rewards-differs-from-objective")])
        eng.observe("r", reward)


def late_harness(eng, sp, inst, desc):
    """Reward observers created after some dispatches: one reward per LATER dispatch, sums = minus the increase since creation."""
    from job_shop_lib.dispatching import Dispatcher
    from job_shop_lib.reinforcement_learning import MakespanReward, IdleTimeReward

    disp = Dispatcher(inst)
    spec = Spec(desc)
    k0 = 1 + eng.choice(desc.n_ops, "dispatches-before-creation")
    for _ in range(k0):
        op, m = D.choose_dispatch(eng, desc, spec)
        disp.dispatch(D.op_by_id(inst, op), m)
        spec.apply(op, m)
    mk0, idle0 = spec.makespan(), spec.idle_time()
    mk, idle = MakespanReward(disp), IdleTimeReward(disp)
    for k in range(desc.n_ops - k0):
        op, m = D.choose_dispatch(eng, desc, spec)
        disp.dispatch(D.op_by_id(inst, op), m)
        spec.apply(op, m)
        eng.reachable("transition")
        eng.reachable("state")
        if len(mk.rewards) != k + 1 or len(idle.rewards) != k + 1:
            eng.fail("C13/late-created/not-exactly-one-reward-per-dispatch", f"{len(mk.rewards)}, {len(idle.rewards)} after {k + 1}")
            return
        eng.prove_all([(r <= 0, "C13/late-created/positive-reward") for r in list(mk.rewards) + list(idle.rewards)] +
                      [(veq(vsum(mk.rewards), mk0 - spec.makespan()), "C13/late-created/makespan/sum-differs-from-minus-makespan-increase"),
                       (veq(vsum(idle.rewards), idle0 - spec.idle_time()), "C13/late-created/idle/sum-differs-from-minus-idle-time-increase")])
        eng.observe("r", [mk.rewards[-1], idle.rewards[-1]])


def big_models(sp):
    # solver-chosen large models (>= 2**24+1) of the path conditions, run on the un-instrumented library
    return True
