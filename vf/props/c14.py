"""C14 — instances and schedules survive serialisation; views match; instances are never modified."""
from __future__ import annotations

import itertools
import json
import os
import signal
import tempfile

from .. import drivers as D
from .. import engine as E
from .. import models
from ..spec import Spec, feasibility_obligations, vand, veq, vmax, vsum
from . import common as C

ID = "C14"
ASSUMPTIONS = [
    "durations are arbitrary integers >= 0 (symbolic) for views, dictionary round trips, schedule rebuilding and immutability",
    "JSON and Taillard text are text boundaries: those round trips run on the solver's model of each path and additionally with every "
    "duration replaced by 0 and by 2**31 - representative-per-path, NOT for-all",
    "job sequences: for every non-flexible structure every distinct permutation of every machine's job-id multiset is tried; 'admits a "
    "schedule' is decided independently: the i-th occurrence of job j on machine m is the job's i-th operation on m, and the union of job "
    "chains and machine orders must be acyclic; a step budget on the rebuilding loop's readiness tests (plus a 120 s alarm) turns a hang into a violation",
    "immutability: structural snapshot of the instance (jobs list identity, per-operation machines/duration/ids, name, metadata) before and "
    "after: dispatcher with all observers over a history, every named rule solver, the four graph builders (+ solved graph), "
    "schedule round-trips: a second from_job_sequences (another schedule of the same instance object) and from_dict must leave the first "
    "reconstruction unchanged",
    "SingleJobShopGraphEnv episode, Schedule.from_job_sequences/to_dict and the real ORToolsSolver on a concrete twin built from the path's model (representative, not for-all)",
    "padded arrays are kept exact by the numpy facade",
    "benchmarks mode: the 162 shipped instances (concrete data, enumerated) survive the JSON round trip and their aggregate views equal the definitions",
]
STUBS = ["max", "min", "int (dispatcher module only)", "np facade"]
BUDGET = {"quick": 480, "thorough": 2700}


def bounds(tier):
    if tier == "quick":
        return ("views + dict/JSON/Taillard: ordered shapes <=3 jobs <=4 ops, all assignments M<=3 and flexible M<=2 (<=3 ops M<=3 sets); schedule "
                "rebuilding: shapes <=4 ops M<=2 non-flexible all histories; job-sequence permutations: same family, all permutations; "
                "immutability: shapes <=3 ops M<=2 incl. flexible")
    return "quick + schedule rebuilding and permutations on 5 ops M<=3 up to renaming; immutability on 4 ops"


def extra_models(sp):
    return models.numpy_facade_models(include_rl=True)


def subspaces(tier):
    out = []
    s4, s3 = D.shapes(3, 4), D.shapes(3, 3)
    out += C.structure_subspaces(s4, 3, False, mode="views")
    out += C.structure_subspaces(s4, 2, True, only_flexible=True, mode="views")
    out += C.structure_subspaces(D.shapes(2, 2), 3, True, only_flexible=True, mode="views")
    out += C.structure_subspaces(s4, 2, False, mode="schedules")
    out += C.structure_subspaces(s3, 3, False, mode="schedules")
    out += C.structure_subspaces(s4, 2, False, mode="sequences")
    out += C.structure_subspaces(s3, 3, False, mode="sequences")
    out += [dict(shape=[1], machines=[[0]], mode="benchmarks", part=i) for i in range(4)]
    out += C.structure_subspaces(s3, 2, False, mode="immutable")
    out += C.structure_subspaces(D.shapes(2, 2), 2, True, only_flexible=True, mode="immutable")
    s5 = [s for s in D.shapes(3, 5) if sum(s) == 5]
    out += C.structure_subspaces(s5, 3, False, canonical=True, mode="schedules")
    out += C.structure_subspaces(s5, 2, False, canonical=True, mode="sequences")
    if tier == "thorough":
        out += C.structure_subspaces(s5, 3, False, canonical=True, mode="sequences")
        out += C.structure_subspaces([(2, 2, 2), (3, 3), (3, 2, 1), (4, 2)], 3, False, canonical=True, mode="schedules")
        out += C.structure_subspaces([s for s in s4 if sum(s) == 4], 2, False, mode="immutable")
    return out


def cost(sp):
    return {"views": 1, "schedules": 1, "sequences": 3, "immutable": 6, "benchmarks": 500}[sp["mode"]] * C.cost(dict(sp, filter="none"))


def concrete_values(eng):
    return dict(eng.values) if eng.mode == "conc" else eng.model_values()


# ---------------------------------------------------------------------------
def nan(x):
    import numpy as np

    return isinstance(x, (float, np.floating)) and bool(x != x)


def f32eq(v, d):
    """durations_matrix_array is a float32 array by design: in concrete runs with large values the entry is the float32
    nearest to the duration; symbolically (numpy facade, exact objects) it is the duration."""
    import numpy as np

    if isinstance(d, int) and not isinstance(d, bool) and isinstance(v, (float, np.floating)):
        return float(v) == float(np.float32(d))
    return veq(v, d)


def views_harness(eng, sp, inst, desc):
    eng.reachable("state")
    eng.reachable("transition")
    key = "C14/view"
    n, J, M = desc.n_ops, desc.n_jobs, desc.n_machines
    # another order of first access on an independent twin: the padded arrays are read BEFORE the list views
    from job_shop_lib import JobShopInstance as _JSI, Operation as _Op

    twin = _JSI([[_Op(desc.machines[o][0] if len(desc.machines[o]) == 1 else list(desc.machines[o]), desc.dur[o]) for o in job]
                 for job in desc.jobs])
    twin.durations_matrix_array
    twin.machines_matrix_array
    if [len(r) for r in twin.durations_matrix] != desc.shape or [len(r) for r in twin.machines_matrix] != desc.shape:
        eng.fail(key + "/list-views-changed-by-reading-the-padded-arrays-first",
                 f"{[len(r) for r in twin.durations_matrix]} / {[len(r) for r in twin.machines_matrix]} vs {desc.shape}")
    elif [list(map(lambda x: x if isinstance(x, list) else [x], r)) for r in twin.machines_matrix] != \
            [[desc.machines[o] for o in job] for job in desc.jobs]:
        eng.fail(key + "/machines_matrix-after-arrays-first", f"{twin.machines_matrix}")
    ids = [(o.operation_id, o.job_id, o.position_in_job) for job in inst.jobs for o in job]
    if ids != [(k, desc.job_of[k], desc.pos_of[k]) for k in range(n)]:
        eng.fail(key + "/operation-ids-not-dense-job-major", f"{ids}")
    if (inst.num_jobs, inst.num_machines, inst.num_operations, bool(inst.is_flexible)) != (J, M, n, desc.flexible):
        eng.fail(key + "/counts", f"{(inst.num_jobs, inst.num_machines, inst.num_operations, inst.is_flexible)}")
    items = []
    dm = inst.durations_matrix
    if [len(r) for r in dm] != desc.shape:
        eng.fail(key + "/durations_matrix-shape")
    else:
        items += [(veq(dm[j][p], desc.dur[desc.jobs[j][p]]), key + "/durations_matrix") for j in range(J) for p in range(desc.shape[j])]
    mm = inst.machines_matrix
    exp_mm = [[(desc.machines[o] if desc.flexible else desc.machines[o][0]) for o in job] for job in desc.jobs]
    if [list(r) for r in mm] != exp_mm:
        eng.fail(key + "/machines_matrix", f"{mm} vs {exp_mm}")
    obm = [[o.operation_id for o in l] for l in inst.operations_by_machine]
    exp_obm = [[o for o in range(n) if m in desc.machines[o]] for m in range(M)]
    if obm != exp_obm:
        eng.fail(key + "/operations_by_machine", f"{obm} vs {exp_obm}")
    mx = lambda xs: (vmax(*xs) if len(xs) > 1 else xs[0]) if xs else 0
    items.append((veq(inst.max_duration, mx(desc.dur)), key + "/max_duration"))
    items += [(veq(a, mx([desc.dur[o] for o in job])), key + "/max_duration_per_job") for a, job in zip(inst.max_duration_per_job, desc.jobs)]
    items += [(veq(a, mx([desc.dur[o] for o in ops])), key + "/max_duration_per_machine") for a, ops in zip(inst.max_duration_per_machine, exp_obm)]
    items += [(veq(a, vsum([desc.dur[o] for o in job])), key + "/job_durations") for a, job in zip(inst.job_durations, desc.jobs)]
    items += [(veq(a, vsum([desc.dur[o] for o in ops])), key + "/machine_loads") for a, ops in zip(inst.machine_loads, exp_obm)]
    items.append((veq(inst.total_duration, vsum(desc.dur)), key + "/total_duration"))
    if len(inst.max_duration_per_job) != J or len(inst.max_duration_per_machine) != M or len(inst.job_durations) != J \
            or len(inst.machine_loads) != M:
        eng.fail(key + "/per-job-or-per-machine-view-length")
    # padded arrays
    L = max(desc.shape)
    da = inst.durations_matrix_array
    if tuple(da.shape) != (J, L):
        eng.fail(key + "/durations_matrix_array-shape", f"{da.shape}")
    else:
        for j in range(J):
            for p in range(L):
                v = da[j, p]
                if p < desc.shape[j]:
                    if nan(v):
                        eng.fail(key + "/durations_matrix_array-nan-inside")
                    else:
                        items.append((f32eq(v, desc.dur[desc.jobs[j][p]]), key + "/durations_matrix_array"))
                elif not nan(v):
                    eng.fail(key + "/durations_matrix_array-padding-not-nan-at-the-end", f"[{j},{p}]={v}")
    ma = inst.machines_matrix_array
    K = max(len(m) for m in desc.machines)
    exp_shape = (J, L, K) if desc.flexible else (J, L)
    if tuple(ma.shape) != exp_shape:
        eng.fail(key + "/machines_matrix_array-shape", f"{ma.shape} vs {exp_shape}")
    else:
        for j in range(J):
            for p in range(L):
                cell = ma[j, p]
                vals = list(cell) if desc.flexible else [cell]
                want = desc.machines[desc.jobs[j][p]] if p < desc.shape[j] else []
                for q, v in enumerate(vals):
                    if q < len(want):
                        if nan(v) or int(v) != want[q]:
                            eng.fail(key + "/machines_matrix_array-value", f"[{j},{p},{q}]={v} want {want[q]}")
                    elif not nan(v):
                        eng.fail(key + "/machines_matrix_array-padding-not-nan-at-the-end", f"[{j},{p},{q}]={v}")
    eng.prove_all(items)
    eng.observe("total", inst.total_duration)
    # dictionary round trip (symbolic)
    from job_shop_lib import JobShopInstance

    meta = {"k": [1, "x"], "optimum": None}
    named = JobShopInstance(inst.jobs, name="named instance", set_operation_attributes=False, **meta)
    dct = named.to_dict()
    back = JobShopInstance.from_matrices(**dct)
    same_instance(eng, desc, back, "named instance", meta, "C14/dict-round-trip")
    # text boundaries on representatives
    vals = concrete_values(eng)
    for variant in ("model", "zero", "big"):
        durs = [vals[f"d{k}"] if variant == "model" else 0 if variant == "zero" else 2 ** 31 for k in range(n)]
        text_round_trips(eng, desc, durs, meta)


def same_instance(eng, desc, back, name, meta, key, durs=None):
    durs = desc.dur if durs is None else durs
    st = [[list(o.machines) for o in job] for job in back.jobs]
    if st != [[desc.machines[o] for o in job] for job in desc.jobs]:
        eng.fail(key + "/operations-differ", f"{st}")
        return
    if back.name != name or back.metadata != meta:
        eng.fail(key + "/name-or-metadata-differ", f"{back.name!r} {back.metadata!r}")
    eng.prove(vand([veq(o.duration, durs[o.operation_id]) for job in back.jobs for o in job]), key + "/durations-differ")


def text_round_trips(eng, desc, durs, meta):
    from job_shop_lib import JobShopInstance, Operation

    jobs = [[Operation(desc.machines[o][0] if len(desc.machines[o]) == 1 else list(desc.machines[o]), durs[o]) for o in job]
            for job in desc.jobs]
    inst = JobShopInstance(jobs, name="text instance", **meta)
    back = JobShopInstance.from_matrices(**json.loads(json.dumps(inst.to_dict())))
    same_instance(eng, desc, back, "text instance", meta, "C14/json-round-trip", durs)
    if not desc.flexible:
        lines = [f"# comment\n{desc.n_jobs} {desc.n_machines}\n"]
        for job in desc.jobs:
            lines.append(" ".join(f"{desc.machines[o][0]} {durs[o]}" for o in job) + "\n")
        fd, path = tempfile.mkstemp(suffix=".txt", prefix="taillard_", dir="/dev/shm" if os.path.isdir("/dev/shm") else None)
        try:
            with os.fdopen(fd, "w") as f:
                f.writelines(lines)
            back = JobShopInstance.from_taillard_file(path, name="text instance", **meta)
            same_instance(eng, desc, back, "text instance", meta, "C14/taillard-round-trip", durs)
            dotted = JobShopInstance.from_taillard_file(path, name="shop.v2 (rev. 3)", **meta)
            same_instance(eng, desc, dotted, "shop.v2 (rev. 3)", meta, "C14/taillard-round-trip/explicit-name-with-dots", durs)
            auto = JobShopInstance.from_taillard_file(path)
            if auto.name != os.path.basename(path).split(".")[0]:
                eng.fail("C14/taillard-round-trip/default-name-is-not-the-file-name", auto.name)
        finally:
            os.unlink(path)


# ---------------------------------------------------------------------------
def compare_schedules(eng, desc, a, b, key):
    la, lb = D.lib_lists(a), D.lib_lists(b)
    if [[(o, m) for o, _, m in l] for l in la] != [[(o, m) for o, _, m in l] for l in lb]:
        eng.fail(key + "/machine-lists-differ", f"{la} vs {lb}")
        return
    eng.prove(vand([veq(x[1], y[1]) for l1, l2 in zip(la, lb) for x, y in zip(l1, l2)]), key + "/start-times-differ")


def schedules_harness(eng, sp, inst, desc):
    from job_shop_lib import Schedule
    from job_shop_lib.dispatching import Dispatcher

    disp = Dispatcher(inst)
    spec = Spec(desc)
    for _ in range(desc.n_ops):
        op, m = D.choose_dispatch(eng, desc, spec)
        disp.dispatch(D.op_by_id(inst, op), m)
        spec.apply(op, m)
        eng.reachable("transition")
    eng.reachable("state")
    S = disp.schedule
    S.metadata = {"tag": "t", "n": [1, 2]}
    seqs = [[s.job_id for s in l] for l in S.schedule]
    try:
        r1 = Schedule.from_job_sequences(inst, seqs)
        compare_schedules(eng, desc, r1, S, "C14/from_job_sequences")
        # a second reconstruction on the SAME instance object (another schedule: last job first, last eligible machine) must give
        # that schedule and leave the first result as it was
        d2 = Dispatcher(inst)
        for job in reversed(inst.jobs):
            for o_ in job:
                d2.dispatch(o_, o_.machines[-1])
        seqs2 = [[s.job_id for s in l] for l in d2.schedule.schedule]
        compare_schedules(eng, desc, Schedule.from_job_sequences(inst, seqs2), d2.schedule, "C14/from_job_sequences/second-call")
        compare_schedules(eng, desc, r1, S, "C14/from_job_sequences/first-result-after-second-call")
        dct = S.to_dict()
        if dct.get("job_sequences") != seqs or dct.get("metadata") != S.metadata:
            eng.fail("C14/to_dict/job_sequences-or-metadata", f"{dct.get('job_sequences')} {dct.get('metadata')}")
        back = Schedule.from_dict(**dct)
        compare_schedules(eng, desc, back, S, "C14/schedule-dict-round-trip")
        compare_schedules(eng, desc, r1, S, "C14/from_job_sequences/first-result-after-from_dict")
        if back.metadata != S.metadata:
            eng.fail("C14/schedule-dict-round-trip/metadata-differs", f"{back.metadata}")
        same_instance(eng, desc, back.instance, inst.name, inst.metadata, "C14/schedule-dict-round-trip/instance")
    except E.Unsupported:
        raise
    except E.PathAbort:
        raise
    except Exception as ex:
        eng.fail(f"C14/schedule-rebuild-raises-{type(ex).__name__}", f"{ex} for sequences {seqs}"[:300])
    eng.observe("mk", S.makespan())
    # JSON on the representative of this path
    vals = concrete_values(eng)
    durs = [vals[f"d{k}"] for k in range(desc.n_ops)]
    cinst, cdesc = D.build_instance(E.Engine("conc", values={f"d{k}": durs[k] for k in range(desc.n_ops)}), sp["shape"], sp["machines"])
    cd = Dispatcher(cinst)
    for op, m in spec.history:
        cd.dispatch(D.op_by_id(cinst, op), m)
    try:
        back = Schedule.from_dict(**json.loads(json.dumps(cd.schedule.to_dict())))
        if D.lib_lists(back) != D.lib_lists(cd.schedule):
            eng.fail("C14/schedule-json-round-trip/differs", f"{D.lib_lists(back)} vs {D.lib_lists(cd.schedule)}")
    except Exception as ex:
        eng.fail(f"C14/schedule-json-round-trip/raises-{type(ex).__name__}", f"{ex}"[:200])


class Hang(Exception):
    pass


def _alarm(*a):
    raise Hang()


def admits_schedule(desc, seqs):
    """Independent decision: job chains + machine orders acyclic (i-th occurrence of job j on machine m = its i-th op there)."""
    n = desc.n_ops
    succ = {o: set() for o in range(n)}
    for job in desc.jobs:
        for a, b in zip(job, job[1:]):
            succ[a].add(b)
    for m, seq in enumerate(seqs):
        cnt = {}
        ops = []
        for j in seq:
            mine = [o for o in desc.jobs[j] if desc.machines[o] == [m]]
            i = cnt.get(j, 0)
            cnt[j] = i + 1
            if i >= len(mine):
                return False
            ops.append(mine[i])
        for a, b in zip(ops, ops[1:]):
            succ[a].add(b)
    state = {}

    def dfs(u):
        state[u] = 1
        for v in succ[u]:
            if state.get(v) == 1 or (v not in state and dfs(v)):
                return True
        state[u] = 2
        return False

    return not any(o not in state and dfs(o) for o in range(n))


def sequences_harness(eng, sp, inst, desc):
    from job_shop_lib import Schedule
    from job_shop_lib.exceptions import ValidationError

    per_m = [[desc.job_of[o] for o in range(desc.n_ops) if desc.machines[o] == [m]] for m in range(desc.n_machines)]
    perms = [sorted(set(itertools.permutations(x))) for x in per_m]
    for combo in itertools.product(*perms):
        seqs = [list(c) for c in combo]
        eng.reachable("state")
        eng.reachable("transition")
        want = admits_schedule(desc, seqs)
        # progress watchdog: a step budget on the readiness tests made by the rebuilding loop (load independent),
        # backed by a 120 s wall-clock alarm
        from job_shop_lib.dispatching import Dispatcher as _Disp

        budget = [8 * desc.n_ops * (desc.n_machines + 1) + 50]
        orig_ready = getattr(_Disp, "is_operation_ready", None)

        def counted(self, operation, _orig=orig_ready):
            budget[0] -= 1
            if budget[0] < 0:
                raise Hang()
            return _orig(self, operation)

        if orig_ready is not None:
            _Disp.is_operation_ready = counted
        old = signal.signal(signal.SIGALRM, _alarm)
        signal.setitimer(signal.ITIMER_REAL, 120.0)
        try:
            got = Schedule.from_job_sequences(inst, [list(s) for s in seqs])
            err = None
        except ValidationError:
            got, err = None, "validation"
        except Hang:
            got, err = None, "hang"
        except E.Unsupported:
            raise
        except E.PathAbort:
            raise
        except Exception as ex:
            got, err = None, f"{type(ex).__name__}: {ex}"
        finally:
            signal.setitimer(signal.ITIMER_REAL, 0)
            signal.signal(signal.SIGALRM, old)
            if orig_ready is not None:
                _Disp.is_operation_ready = orig_ready
        key = "C14/job-sequences"
        if err == "hang":
            eng.fail(key + "/hang", f"{seqs}")
        elif err not in (None, "validation"):
            eng.fail(key + "/foreign-exception", f"{err} for {seqs}"[:300])
        elif want and got is None:
            eng.fail(key + "/feasible-sequences-rejected", f"{seqs}")
        elif not want and got is not None:
            eng.fail(key + "/sequences-without-a-schedule-accepted", f"{seqs}")
        elif got is not None:
            lists = D.lib_lists(got)
            problems, conds = feasibility_obligations(desc, lists)
            for k, d in problems:
                eng.fail(key + "/accepted-result-infeasible/" + k, d)
            if [[desc.job_of[o] for o, _, _ in l] for l in lists] != seqs or not got.is_complete():
                eng.fail(key + "/accepted-result-does-not-follow-the-sequences", f"{lists} for {seqs}")
            eng.prove_all([(c, key + "/accepted-result-infeasible/" + k) for c, k in conds])
        else:
            eng.prove(True, key)
    eng.observe("n", len(perms))


# ---------------------------------------------------------------------------
def snap_instance(inst):
    return dict(jobs_id=id(inst.jobs), job_ids=[id(j) for j in inst.jobs],
                ops=[[(id(o), list(o.machines), o.duration, o.job_id, o.position_in_job, o.operation_id) for o in job] for job in inst.jobs],
                name=inst.name, metadata=dict(inst.metadata))


def immutable_harness(eng, sp, inst, desc):
    from job_shop_lib import Schedule
    from job_shop_lib.dispatching import Dispatcher
    from job_shop_lib.dispatching.rules import DispatchingRuleSolver
    from job_shop_lib.graphs import (build_disjunctive_graph, build_agent_task_graph, build_agent_task_graph_with_jobs,
                                     build_complete_agent_task_graph, build_solved_disjunctive_graph)
    from .c09 import attach_observers

    before = snap_instance(inst)

    def unchanged(what):
        eng.reachable("state")
        D.prove_snap_equal(eng, before, snap_instance(inst), f"C14/instance-modified-by/{what}")

    # touch the cached views first so that later mutation of a cached list would show
    views = (inst.durations_matrix, inst.machines_matrix, inst.operations_by_machine, inst.job_durations, inst.machine_loads)
    def cached_views():
        return D.snap_value([inst.durations_matrix, inst.machines_matrix, inst.job_durations, inst.machine_loads,
                             [[o.operation_id for o in l] for l in inst.operations_by_machine],
                             inst.durations_matrix_array, inst.machines_matrix_array, inst.max_duration_per_job,
                             inst.max_duration_per_machine])

    views_before = cached_views()
    disp = Dispatcher(inst)
    attach_observers(disp, inst)
    spec = Spec(desc)
    for _ in range(desc.n_ops):
        op, m = D.choose_dispatch(eng, desc, spec)
        disp.dispatch(D.op_by_id(inst, op), m)
        spec.apply(op, m)
        eng.reachable("transition")
    unchanged("dispatcher-and-observers")
    disp.reset()
    unchanged("dispatcher-reset")
    for rule in ("shortest_processing_time", "most_work_remaining", "most_operations_remaining", "first_come_first_served"):
        sched = DispatchingRuleSolver(rule)(inst)
        unchanged(f"rule-solver-{rule}")
    for b in (build_disjunctive_graph, build_agent_task_graph, build_agent_task_graph_with_jobs, build_complete_agent_task_graph):
        g = b(inst)
        unchanged(b.__name__)
    if not desc.flexible:
        build_solved_disjunctive_graph(sched)
        unchanged("build_solved_disjunctive_graph")
        seqs = [[s.job_id for s in l] for l in sched.schedule]
        s2 = Schedule.from_job_sequences(inst, seqs)
        s2.to_dict()
        unchanged("from_job_sequences-and-to_dict")
    env_episode(eng, inst, desc, spec)
    unchanged("single-env-episode")
    if not desc.flexible:
        # the CP solver cannot run on symbolic durations: it runs on a concrete twin built from the model of this path
        from job_shop_lib.constraint_programming import ORToolsSolver

        vals = concrete_values(eng)
        cinst, _ = D.build_instance(E.Engine("conc", values={f"d{k}": vals[f"d{k}"] for k in range(desc.n_ops)}), sp["shape"], sp["machines"])

        def cviews():
            return [cinst.durations_matrix, cinst.machines_matrix, [[o.operation_id for o in l] for l in cinst.operations_by_machine],
                    cinst.job_durations, cinst.machine_loads, [[(list(o.machines), o.duration, o.operation_id) for o in j] for j in cinst.jobs]]

        import copy

        before_c = copy.deepcopy(cviews())
        try:
            ORToolsSolver()(cinst)
        except Exception as ex:
            eng.fail(f"C14/instance-modified-by/cp-solver-raises-{type(ex).__name__}", f"{ex}"[:200])
        if cviews() != before_c:
            eng.fail("C14/instance-modified-by/ORToolsSolver", f"{cviews()} vs {before_c}"[:300])
    D.prove_snap_equal(eng, views_before, cached_views(), "C14/cached-view-modified")
    eng.observe("mk", sched.makespan())


def env_episode(eng, inst, desc, spec):
    from job_shop_lib.dispatching import DispatcherObserverConfig
    from job_shop_lib.dispatching.feature_observers import FeatureObserverType
    from job_shop_lib.graphs import build_agent_task_graph
    from job_shop_lib.reinforcement_learning import SingleJobShopGraphEnv

    cfgs = [DispatcherObserverConfig(t) for t in (FeatureObserverType.IS_READY, FeatureObserverType.DURATION,
                                                  FeatureObserverType.IS_COMPLETED)]
    env = SingleJobShopGraphEnv(build_agent_task_graph(inst), cfgs)
    env.reset()
    for op, m in spec.history:
        env.step((desc.job_of[op], m))
    env.reset()


def benchmarks_harness(eng, sp):
    """The 162 shipped benchmark instances (concrete data): dictionary/JSON round trip and the aggregate views."""
    from job_shop_lib import JobShopInstance
    from job_shop_lib.benchmarking import load_all_benchmark_instances, load_benchmark_instance

    allb = load_all_benchmark_instances()
    names = sorted(allb)[sp["part"]::4]
    for name in names:
        eng.reachable("state")
        eng.reachable("transition")
        inst = allb[name]
        back = JobShopInstance.from_matrices(**json.loads(json.dumps(inst.to_dict())))
        a = [[(list(o.machines), o.duration, o.operation_id) for o in job] for job in inst.jobs]
        b = [[(list(o.machines), o.duration, o.operation_id) for o in job] for job in back.jobs]
        if a != b or back.name != inst.name or back.metadata != inst.metadata or inst.name != name:
            eng.fail("C14/benchmark/json-round-trip-differs", name)
        if inst.total_duration != sum(o.duration for j in inst.jobs for o in j) or \
                inst.num_operations != sum(len(j) for j in inst.jobs) or \
                [o.operation_id for j in inst.jobs for o in j] != list(range(inst.num_operations)) or \
                inst.machine_loads != [sum(o.duration for j in inst.jobs for o in j if m in o.machines) for m in range(inst.num_machines)]:
            eng.fail("C14/benchmark/view-differs-from-definition", name)
        if load_benchmark_instance(name).to_dict() != inst.to_dict():
            eng.fail("C14/benchmark/load_benchmark_instance-differs", name)
    eng.observe("n", len(names))


def harness(eng, sp):
    if sp["mode"] == "benchmarks":
        return benchmarks_harness(eng, sp)
    inst, desc = D.build_instance(eng, sp["shape"], sp["machines"], dmin=0)
    {"views": views_harness, "schedules": schedules_harness, "sequences": sequences_harness,
     "immutable": immutable_harness}[sp["mode"]](eng, sp, inst, desc)


def big_models(sp):
    # solver-chosen large models (>= 2**24+1) of the path conditions, run on the un-instrumented library
    return True
