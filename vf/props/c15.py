"""C15 — equality means same content."""
from __future__ import annotations

import itertools

from .. import drivers as D
from .. import engine as E
from ..spec import Spec, vand, vor, vnot, veq
from . import common as C

ID = "C15"
ASSUMPTIONS = [
    "objects of different kinds (operation / scheduled operation / schedule / instance) must compare unequal in both directions",
    "every integer attribute compared is symbolic (durations, start times); machine lists, job structure and machine assignments are enumerated",
    "demanded: reflexive, symmetric, transitive; equal for independently built objects with identical content; unequal whenever machines, "
    "durations, job structure, start times or machine assignment differ; equal operations hash equally",
    "nothing is demanded for operations that differ only in job_id/position_in_job/operation_id; instance name and metadata are not content",
    "schedules are dispatcher-built on two independently built instances (own symbolic durations), compared complete and at every common prefix length",
]
STUBS = ["max", "min", "int (dispatcher module only)"]
XHAIR_PREFIX = "c15_"   # leaf kernels re-decided by CrossHair (vf/xhair/kernels.py)
BUDGET = {"quick": 420, "thorough": 2400}
MSETS = [[0], [1], [0, 1]]


def bounds(tier):
    if tier == "quick":
        return ("operations: all pairs/triples over machine lists {0},{1},{0,1} with symbolic durations, standalone and inside instances; "
                "scheduled operations: symbolic start times, every machine pair; instances and schedules: structure pairs (A, B) with A over shapes "
                "<=3 ops, M<=2 incl. flexible, B = A, B = A with one machine list changed, B = a different shape; all histories for schedules on <=3 ops")
    return "quick + instance/schedule pairs on shapes with 4 operations (non-flexible), M<=2"


def _variants(sh, ms):
    """Structures B to compare with A=(sh, ms)."""
    out = [(list(sh), [list(m) for m in ms])]
    for k in range(len(ms)):
        for alt in MSETS:
            if alt != ms[k]:
                m2 = [list(m) for m in ms]
                m2[k] = list(alt)
                out.append((list(sh), m2))
    n = sum(sh)
    for sh2 in D.shapes(3, n):
        if sum(sh2) == n and list(sh2) != list(sh):
            out.append((list(sh2), [list(m) for m in ms]))
    if n > 1:
        sh3 = list(sh)
        if sh3[-1] > 1:
            sh3[-1] -= 1
        else:
            sh3 = sh3[:-1]
        out.append((sh3, [list(m) for m in ms][: n - 1]))
    return out


def subspaces(tier):
    out = [dict(mode="ops", m1=a, m2=b, m3=c) for a in MSETS for b in MSETS for c in MSETS]
    out += [dict(mode="sops", m1=a, m2=b) for a in MSETS for b in MSETS]
    maxops = 3 if tier == "quick" else 4
    for sh in D.shapes(3, maxops):
        flex = sum(sh) <= 3
        for ms in D.machine_structures(sum(sh), 2, flexible=flex):
            for sh2, ms2 in _variants(sh, ms):
                out.append(dict(mode="instances", shape=list(sh), machines=ms, shape2=sh2, machines2=ms2))
                same = sh2 == list(sh) and ms2 == ms
                if same or (sh2 == list(sh) and sum(sh) <= 3 and tier == "thorough") or \
                        (sh2 == list(sh) and sum(sh) <= 2) or (sum(sh) <= 2):
                    out.append(dict(mode="schedules", shape=list(sh), machines=ms, shape2=sh2, machines2=ms2))
    return out


def cost(sp):
    if sp["mode"] == "schedules":
        return C.n_interleavings(sp["shape"]) * C.n_interleavings(sp["shape2"]) * 4
    return 1


def _eq(eng, a, b, key):
    """Evaluate a == b with the library's __eq__ (forks decide it)."""
    try:
        return bool(a == b)
    except E.Unsupported:
        raise
    except Exception as ex:
        eng.fail(key + "/exception-in-eq", f"{type(ex).__name__}: {ex}")
        return None


def _mk_op(m, d):
    from job_shop_lib import Operation

    return Operation(m[0] if len(m) == 1 else list(m), d)


def check_pair(eng, a, b, same_core, same_all, key):
    """same_core: content that, when different, forces inequality.
    same_all: everything equal (forces equality)."""
    r = _eq(eng, a, b, key)
    r2 = _eq(eng, b, a, key)
    if r is None or r2 is None:
        return None
    if r != r2:
        eng.fail(key + "/not-symmetric")
    if r:
        eng.prove(same_core, key + "/equal-although-content-differs")
    else:
        eng.prove(vnot(same_all), key + "/unequal-although-content-identical")
    for x in (a, b):
        if _eq(eng, x, x, key) is False:
            eng.fail(key + "/not-reflexive")
    return r


def harness(eng, sp):
    mode = sp["mode"]
    eng.reachable("state")
    eng.reachable("transition")
    if mode == "ops":
        return ops_harness(eng, sp)
    if mode == "sops":
        return sops_harness(eng, sp)
    from job_shop_lib import JobShopInstance

    instA, dA = D.build_instance(eng, sp["shape"], sp["machines"], dmin=0, prefix="a", name="A")
    instB, dB = D.build_instance(eng, sp["shape2"], sp["machines2"], dmin=0, prefix="b", name="B")
    same_struct = sp["shape"] == sp["shape2"] and sp["machines"] == sp["machines2"]
    durs_eq = vand([veq(x, y) for x, y in zip(dA.dur, dB.dur)]) if same_struct else False
    if mode == "instances":
        r = check_pair(eng, instA, instB, durs_eq, durs_eq, "C15/instance")
        eng.observe("r", r)
        # operations inside the two instances, position by position
        if same_struct:
            for k in range(dA.n_ops):
                oa, ob = D.op_by_id(instA, k), D.op_by_id(instB, k)
                c = veq(dA.dur[k], dB.dur[k])
                rr = check_pair(eng, oa, ob, c, c, "C15/operation-in-instance")
                if rr and hash(oa) != hash(ob):
                    eng.fail("C15/operation/equal-but-different-hash")
        return
    # schedules
    from job_shop_lib.dispatching import Dispatcher

    dispA, dispB = Dispatcher(instA), Dispatcher(instB)
    sA, sB = Spec(dA), Spec(dB)
    steps = max(dA.n_ops, dB.n_ops)
    for k in range(steps):
        if k < dA.n_ops:
            op, m = D.choose_dispatch(eng, dA, sA)
            dispA.dispatch(D.op_by_id(instA, op), m)
            sA.apply(op, m)
        if k < dB.n_ops:
            op, m = D.choose_dispatch(eng, dB, sB)
            dispB.dispatch(D.op_by_id(instB, op), m)
            sB.apply(op, m)
        eng.reachable("transition")
        # content of a (partial) schedule: its per-machine lists of scheduled operations; differences confined to
        # operations that are not yet scheduled are not demanded to make schedules unequal (either reading accepted)
        sched_ops = sA.scheduled_ops()
        same_lists = (dA.n_machines == dB.n_machines and sA.by_machine == sB.by_machine and
                      all(dA.machines[o] == dB.machines[o] and dA.job_of[o] == dB.job_of[o] and
                          dA.pos_of[o] == dB.pos_of[o] for o in sched_ops))
        if same_lists:
            core = vand([veq(sA.start[o], sB.start[o]) for o in sched_ops] +
                        [veq(dA.dur[o], dB.dur[o]) for o in sched_ops])
            allc = vand(core, durs_eq) if same_struct else False
        else:
            core = allc = False
        r = check_pair(eng, dispA.schedule, dispB.schedule, core, allc, "C15/schedule")
        eng.observe("r", r)
        if k == 0:
            # objects of different kinds are never equal, in either direction
            so = dispA.schedule.schedule[sA.machine_of[sA.history[0][0]]][0]
            check_pair(eng, dispA.schedule, instA, False, False, "C15/schedule-vs-instance")
            check_pair(eng, so, dispA.schedule, False, False, "C15/scheduled-operation-vs-schedule")
            check_pair(eng, so.operation, instA, False, False, "C15/operation-vs-instance")


def ops_harness(eng, sp):
    d = [eng.fresh_int(f"d{i}", 0) for i in range(3)]
    ms = [sp["m1"], sp["m2"], sp["m3"]]
    ops = [_mk_op(ms[i], d[i]) for i in range(3)]
    res = {}
    for i, j in ((0, 1), (1, 2), (0, 2)):
        c = vand(ms[i] == ms[j], veq(d[i], d[j]))
        res[(i, j)] = check_pair(eng, ops[i], ops[j], c, c, "C15/operation")
        if res[(i, j)] and hash(ops[i]) != hash(ops[j]):
            eng.fail("C15/operation/equal-but-different-hash")
    if res[(0, 1)] and res[(1, 2)] and res[(0, 2)] is False:
        eng.fail("C15/operation/not-transitive")
    eng.observe("r", [res[(0, 1)], res[(1, 2)], res[(0, 2)]])
    # independently built twin with identical content
    twin = _mk_op(list(ms[0]), d[0])
    if _eq(eng, ops[0], twin, "C15/operation") is False:
        eng.fail("C15/operation/unequal-although-content-identical")
    if _eq(eng, ops[0], "not an operation", "C15/operation"):
        eng.fail("C15/operation/equal-to-foreign-object")


def sops_harness(eng, sp):
    from job_shop_lib import ScheduledOperation

    d = [eng.fresh_int(f"d{i}", 0) for i in range(2)]
    s = [eng.fresh_int(f"s{i}", 0) for i in range(2)]
    ms = [sp["m1"], sp["m2"]]
    ops = [_mk_op(ms[i], d[i]) for i in range(2)]
    for ma in ms[0]:
        for mb in ms[1]:
            a = ScheduledOperation(ops[0], s[0], ma)
            b = ScheduledOperation(ops[1], s[1], mb)
            c = vand(ms[0] == ms[1], ma == mb, veq(d[0], d[1]), veq(s[0], s[1]))
            r = check_pair(eng, a, b, c, c, "C15/scheduled-operation")
            eng.observe("r", r)
            twin = ScheduledOperation(_mk_op(list(ms[0]), d[0]), s[0], ma)
            if _eq(eng, a, twin, "C15/scheduled-operation") is False:
                eng.fail("C15/scheduled-operation/unequal-although-content-identical")
            # objects of different kinds never hold the same content: a scheduled operation and the operation it wraps
            check_pair(eng, a, ops[0], False, False, "C15/scheduled-operation-vs-operation")
            # same operation object, different start: must differ
            b2 = ScheduledOperation(ops[0], s[1], ma)
            check_pair(eng, a, b2, veq(s[0], s[1]), veq(s[0], s[1]), "C15/scheduled-operation")


def big_models(sp):
    # solver-chosen large models (>= 2**24+1) of the path conditions, run on the un-instrumented library
    return True
