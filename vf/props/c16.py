"""C16 — graph encodings are faithful to the instance and the schedule."""
from __future__ import annotations

import itertools

from .. import drivers as D
from .. import engine as E
from ..spec import Spec, vand, veq, vmax
from . import common as C

ID = "C16"
ASSUMPTIONS = [
    "structure mode: node lists and exact edge sets/types of the four builders for every instance structure in the bound (flexible, "
    "irregular, recirculation included); no symbolic values are involved, the structures are enumerated exhaustively",
    "blocks mode: the complete agent-task graph assembled by hand from the public building blocks (JobShopGraph.add_node with machine/job "
    "nodes in every order, either group first, edge blocks in two orders); edges judged by the entities they connect",
    "where a conjunctive (job-chain) and a disjunctive edge are prescribed for the same ordered pair (consecutive operations of one job "
    "sharing a machine) the edge must be typed CONJUNCTIVE: the precedence must stay recognisable; the reverse edge is DISJUNCTIVE",
    "solved mode: durations arbitrary integers >= 1; (a) every dispatcher-built complete schedule, (b) arbitrary complete schedules built "
    "through Schedule(instance, lists) from every machine assignment and every per-machine order with symbolic start times constrained "
    "only by feasibility; acyclicity is decided on the (concrete) edge set of the real graph, the longest duration-weighted path is a z3 "
    "max-term over the real graph's edges in topological order",
]
STUBS = ["max", "min", "int (dispatcher module only)"]
BUDGET = {"quick": 420, "thorough": 2400}
KINDS = ["disj", "at", "atj", "cat"]


def bounds(tier):
    if tier == "quick":
        return ("structure: ordered shapes <=3 jobs <=4 ops, every non-flexible assignment M<=3 and every flexible structure M<=2 (<=3 ops: M<=3); "
                "blocks: complete agent-task graph assembled by hand on shapes <=3 ops and (2,2) M<=3 (flexible: <=2 ops M<=2), all node orders; "
                "solved (a): shapes <=4 ops M<=2 + flexible <=3 ops + 5 ops M<=3 up to renaming, all histories; solved (b): shapes <=4 ops M<=2 "
                "(flexible <=3 ops), all machine assignments and per-machine orders")
    return "quick + structure on 5 ops M<=3; solved (a) on (2,2,2),(3,3),(3,2,1),(4,2) M<=3 up to renaming; solved (b) on 5 ops and flexible 4 ops"


def subspaces(tier):
    out = []
    s4, s3 = D.shapes(3, 4), D.shapes(3, 3)
    out += C.structure_subspaces(s4, 3, False, mode="structure")
    out += C.structure_subspaces(s4, 2, True, only_flexible=True, mode="structure")
    out += C.structure_subspaces(D.shapes(3, 2), 3, True, only_flexible=True, mode="structure")
    out += C.structure_subspaces(s3 + [(2, 2)], 3, False, mode="blocks")
    out += C.wide_subspaces(mode="structure", histories=("jobmajor",)) + C.tall_subspaces(mode="structure", histories=("jobmajor",))
    out += C.wide_subspaces(mode="solved-a", pairs=((1, 8), (4, 5))) + C.tall_subspaces(mode="solved-a")
    out += C.structure_subspaces(D.shapes(3, 2), 2, True, only_flexible=True, mode="blocks")
    out += C.structure_subspaces(s4, 2, False, mode="solved-a")
    out += C.structure_subspaces(s3, 2, True, only_flexible=True, mode="solved-a")
    out += C.structure_subspaces(s3 + [(2, 2)], 2, False, mode="solved-b")
    out += C.structure_subspaces(D.shapes(3, 3), 2, True, only_flexible=True, mode="solved-b")
    s5 = [s for s in D.shapes(3, 5) if sum(s) == 5]
    out += C.structure_subspaces(s5, 3, False, canonical=True, mode="structure")
    out += C.structure_subspaces(s5, 3, False, canonical=True, mode="solved-a")
    out += C.structure_subspaces(s5, 2, False, canonical=True, mode="solved-b")
    out += C.structure_subspaces([s for s in s4 if sum(s) == 4], 2, False, mode="solved-b")
    if tier == "thorough":
        out += C.structure_subspaces(s5, 3, False, mode="structure")
        out += C.structure_subspaces([(2, 2, 2), (3, 3), (3, 2, 1), (4, 2)], 3, False, canonical=True, mode="solved-a")
        out += C.structure_subspaces(s5, 2, False, mode="solved-b")
        out += C.structure_subspaces([s for s in s4 if sum(s) == 4], 2, True, only_flexible=True, mode="solved-b")
    return out


def cost(sp):
    if sp["mode"] == "blocks":
        return 12
    return 1 if sp["mode"] == "structure" else C.cost(dict(sp, filter="none")) * (4 if sp["mode"] == "solved-b" else 1)


def expected(desc, kind):
    """(number of nodes, {(u,v): set of admissible types}) from the definitions."""
    from job_shop_lib.graphs import EdgeType

    n, M, J = desc.n_ops, desc.n_machines, desc.n_jobs
    Ed = {}

    def add(u, v, t=None):
        Ed.setdefault((u, v), set()).add(t)

    by_m = [[o for o in range(n) if m in desc.machines[o]] for m in range(M)]
    if kind == "disj":
        for m in range(M):
            for a, b in itertools.permutations(by_m[m], 2):
                add(a, b, EdgeType.DISJUNCTIVE)
        for job in desc.jobs:
            for a, b in zip(job, job[1:]):
                Ed[(a, b)] = {EdgeType.CONJUNCTIVE}
            add(n, job[0], EdgeType.CONJUNCTIVE)
            add(job[-1], n + 1, EdgeType.CONJUNCTIVE)
        return n + 2, Ed, {"source": n, "sink": n + 1}
    mnode = lambda m: n + m
    for m in range(M):
        for o in by_m[m]:
            add(mnode(m), o)
            add(o, mnode(m))
    if kind in ("at", "atj"):
        for a, b in itertools.permutations(range(M), 2):
            add(mnode(a), mnode(b))
    if kind == "at":
        for job in desc.jobs:
            for a, b in itertools.permutations(job, 2):
                add(a, b)
        return n + M, Ed, {}
    jnode = lambda j: n + M + j
    for j, job in enumerate(desc.jobs):
        for o in job:
            add(jnode(j), o)
            add(o, jnode(j))
    if kind == "atj":
        for a, b in itertools.permutations(range(J), 2):
            add(jnode(a), jnode(b))
        return n + M + J, Ed, {}
    g = n + M + J
    for m in range(M):
        add(g, mnode(m))
        add(mnode(m), g)
    for j in range(J):
        add(g, jnode(j))
        add(jnode(j), g)
    return n + M + J + 1, Ed, {}


def structure_harness(eng, sp, inst, desc):
    from job_shop_lib.graphs import (build_disjunctive_graph, build_agent_task_graph, build_agent_task_graph_with_jobs,
                                     build_complete_agent_task_graph, NodeType)

    builders = {"disj": build_disjunctive_graph, "at": build_agent_task_graph, "atj": build_agent_task_graph_with_jobs,
                "cat": build_complete_agent_task_graph}
    alive = []
    for kind in KINDS:
        eng.reachable("state")
        eng.reachable("transition")
        key = f"C16/{kind}"
        try:
            g = builders[kind](inst)
            alive.append((kind, g))
        except E.Unsupported:
            raise
        except Exception as ex:
            eng.fail(key + f"/builder-raises-{type(ex).__name__}", f"{ex}"[:200])
            continue
        nn, Ed, _ = expected(desc, kind)
        ids = [x.node_id for x in g.nodes]
        if len(g.nodes) != nn or ids != list(range(nn)) or sorted(g.graph.nodes()) != list(range(nn)):
            eng.fail(key + "/node-list-differs-from-one-node-per-entity", f"{len(g.nodes)} nodes, expected {nn}")
            continue
        ok = True
        for o in range(desc.n_ops):
            nd = g.nodes[o]
            if nd.node_type != NodeType.OPERATION or nd.operation is not D.op_by_id(inst, o):
                eng.fail(key + "/operation-node-id-differs-from-operation-id", f"node {o}")
                ok = False
        types = [x.node_type for x in g.nodes[desc.n_ops:]]
        exp_types = {"disj": [NodeType.SOURCE, NodeType.SINK],
                     "at": [NodeType.MACHINE] * desc.n_machines,
                     "atj": [NodeType.MACHINE] * desc.n_machines + [NodeType.JOB] * desc.n_jobs,
                     "cat": [NodeType.MACHINE] * desc.n_machines + [NodeType.JOB] * desc.n_jobs + [NodeType.GLOBAL]}[kind]
        if types != exp_types:
            eng.fail(key + "/entity-nodes-of-wrong-type", f"{types}")
            ok = False
        for i, x in enumerate(g.nodes[desc.n_ops:]):
            if x.node_type == NodeType.MACHINE and x.machine_id != i:
                eng.fail(key + "/machine-node-with-wrong-machine-id")
            if x.node_type == NodeType.JOB and x.job_id != i - desc.n_machines:
                eng.fail(key + "/job-node-with-wrong-job-id")
        got = {(u, v): d.get("type") for u, v, d in g.graph.edges(data=True)}
        missing = sorted(set(Ed) - set(got))
        extra = sorted(set(got) - set(Ed))
        if missing:
            eng.fail(key + "/prescribed-edge-missing", f"{missing[:6]}")
        if extra:
            eng.fail(key + "/edge-not-prescribed-by-the-definition", f"{extra[:6]}")
        wrong = [(k, str(t)) for k, t in got.items() if k in Ed and t not in Ed[k]]
        if wrong:
            eng.fail(key + "/edge-with-wrong-type", f"{wrong[:6]}")
        if ok and not missing and not extra and not wrong:
            eng.prove(True, key)
    # graphs must not share state: build graphs of other instances, then look at the first ones again
    from job_shop_lib import JobShopInstance, Operation

    other = JobShopInstance([[Operation(0, 1)], [Operation(0, 1), Operation(0, 2)], [Operation(0, 1)], [Operation(0, 3), Operation(0, 1)]])
    keep = [builders[k](other) for k in KINDS] + [builders["disj"](JobShopInstance([[Operation(0, 1)]]))]
    for kind, g in alive:
        nn, Ed, _ = expected(desc, kind)
        ids = [x.node_id for x in g.nodes]
        got = {(u, v) for u, v in g.graph.edges()}
        if ids != list(range(nn)) or sorted(g.graph.nodes()) != list(range(nn)) or got != set(Ed):
            eng.fail(f"C16/{kind}/graph-changed-after-building-graphs-of-other-instances", f"node ids {ids}")
    eng.observe("n", desc.n_ops)


def blocks_harness(eng, sp, inst, desc):
    """The same edge definitions, for a graph assembled by hand from the public building blocks: entity nodes are added
    through JobShopGraph.add_node in a chosen order (any permutation of the machine nodes, of the job nodes, either group
    first), then the edge blocks are called in a chosen order.  Edges are judged by the ENTITIES they connect."""
    import job_shop_lib.graphs as G
    from job_shop_lib.graphs import JobShopGraph, Node, NodeType

    n, M, J = desc.n_ops, desc.n_machines, desc.n_jobs

    def perm(k, what):
        rest, out = list(range(k)), []
        while len(rest) > 1:
            out.append(rest.pop(eng.choice(len(rest), what)))
        return out + rest

    g = JobShopGraph(inst)
    groups = [[("m", m) for m in perm(M, "machine-node-order")], [("j", j) for j in perm(J, "job-node-order")]]
    if eng.choice(2, "jobs-first"):
        groups.reverse()
    for kind_, i in groups[0] + groups[1]:
        g.add_node(Node(NodeType.MACHINE, machine_id=i) if kind_ == "m" else Node(NodeType.JOB, job_id=i))
    G.add_global_node(g)
    blocks = [G.add_operation_machine_edges, G.add_operation_job_edges, G.add_machine_global_edges, G.add_job_global_edges]
    if eng.choice(2, "edge-block-order"):
        blocks.reverse()
    eng.reachable("state")
    eng.reachable("transition")
    key = "C16/blocks"
    try:
        for b in blocks:
            b(g)
    except E.Unsupported:
        raise
    except Exception as ex:
        eng.fail(key + f"/building-block-raises-{type(ex).__name__}", f"{ex}"[:200])
        return
    nn, Ed, _ = expected(desc, "cat")
    if len(g.nodes) != nn or [x.node_id for x in g.nodes] != list(range(nn)):
        eng.fail(key + "/node-list-differs-from-one-node-per-entity", f"{len(g.nodes)} nodes, expected {nn}")
        return
    # canonical id (as in expected()) of every actual node
    canon = {}
    for x in g.nodes:
        if x.node_type == NodeType.OPERATION:
            canon[x.node_id] = x.operation.operation_id
        elif x.node_type == NodeType.MACHINE:
            canon[x.node_id] = n + x.machine_id
        elif x.node_type == NodeType.JOB:
            canon[x.node_id] = n + M + x.job_id
        else:
            canon[x.node_id] = n + M + J
    if sorted(canon.values()) != list(range(nn)):
        eng.fail(key + "/node-list-differs-from-one-node-per-entity", f"{sorted(canon.values())}")
        return
    got = {(canon[u], canon[v]) for u, v in g.graph.edges()}
    missing, extra = sorted(set(Ed) - got), sorted(got - set(Ed))
    if missing:
        eng.fail(key + "/prescribed-edge-missing", f"{missing[:6]} (canonical ids: ops, machines, jobs, global)")
    if extra:
        eng.fail(key + "/edge-not-prescribed-by-the-definition", f"{extra[:6]} (canonical ids: ops, machines, jobs, global)")
    if not missing and not extra:
        eng.prove(True, key)
    eng.observe("n", desc.n_ops)


def longest_path_term(g, desc):
    """Duration-weighted longest path over the real graph's edges (None if cyclic)."""
    import networkx as nx
    from job_shop_lib.graphs import NodeType

    if not nx.is_directed_acyclic_graph(g.graph):
        return None
    dist = {}
    for n in nx.topological_sort(g.graph):
        node = g.nodes[n]
        w = desc.dur[node.operation.operation_id] if node.node_type == NodeType.OPERATION else 0
        preds = [dist[p] for p in g.graph.predecessors(n)]
        dist[n] = (vmax(*preds) if len(preds) > 1 else preds[0] if preds else 0) + w
    vals = list(dist.values())
    return vmax(*vals) if len(vals) > 1 else vals[0]


def check_solved(eng, desc, schedule, mk, equality, key):
    from job_shop_lib.graphs import build_solved_disjunctive_graph

    try:
        g = build_solved_disjunctive_graph(schedule)
    except E.Unsupported:
        raise
    except Exception as ex:
        eng.fail(key + f"/builder-raises-{type(ex).__name__}", f"{ex}"[:200])
        return
    lp = longest_path_term(g, desc)
    if lp is None:
        eng.fail(key + "/solved-graph-has-a-cycle")
        return
    if equality:
        eng.prove(veq(lp, mk), key + "/longest-path-differs-from-makespan")
    else:
        eng.prove(lp <= mk, key + "/longest-path-exceeds-makespan")


def harness(eng, sp):
    inst, desc = D.build_instance(eng, sp["shape"], sp["machines"], dmin=1)
    if sp["mode"] == "structure":
        return structure_harness(eng, sp, inst, desc)
    if sp["mode"] == "blocks":
        return blocks_harness(eng, sp, inst, desc)
    from job_shop_lib import Schedule, ScheduledOperation
    from job_shop_lib.dispatching import Dispatcher

    if sp["mode"] == "solved-a":
        disp = Dispatcher(inst)
        spec = Spec(desc)
        for _ in range(desc.n_ops):
            op, m = D.choose_dispatch(eng, desc, spec)
            disp.dispatch(D.op_by_id(inst, op), m)
            spec.apply(op, m)
            eng.reachable("transition")
        eng.reachable("state")
        check_solved(eng, desc, disp.schedule, spec.makespan(), True, "C16/solved/dispatcher-built")
        eng.observe("mk", disp.schedule.makespan())
        return
    # (b) arbitrary feasible complete schedules through the public constructor
    assign = [ms[eng.choice(len(ms), "machine")] if len(ms) > 1 else ms[0] for ms in desc.machines]
    lists = []
    for m in range(desc.n_machines):
        ops = [o for o in range(desc.n_ops) if assign[o] == m]
        order = []
        rest = list(ops)
        while rest:
            order.append(rest.pop(eng.choice(len(rest), "order")))
        lists.append(order)
    st = [eng.fresh_int(f"s{o}", 0) for o in range(desc.n_ops)]
    for order in lists:
        for a, b in zip(order, order[1:]):
            eng.assume(st[b] >= st[a] + desc.dur[a])
    for job in desc.jobs:
        for a, b in zip(job, job[1:]):
            eng.assume(st[b] >= st[a] + desc.dur[a])
    try:
        sched = Schedule(inst, [[ScheduledOperation(D.op_by_id(inst, o), st[o], m) for o in order]
                                for m, order in enumerate(lists)])
    except E.Unsupported:
        raise
    except E.PathAbort:
        raise
    except Exception as ex:
        eng.fail(f"C16/solved/feasible-schedule-rejected-by-constructor-{type(ex).__name__}", f"{ex}"[:200])
        return
    eng.reachable("state")
    eng.reachable("transition")
    ends = [st[o] + desc.dur[o] for o in range(desc.n_ops)]
    mk = vmax(*ends) if len(ends) > 1 else ends[0]
    eng.prove(veq(sched.makespan(), mk), "C16/solved/makespan-of-constructed-schedule")
    check_solved(eng, desc, sched, mk, False, "C16/solved/arbitrary-feasible")
    eng.observe("mk", sched.makespan())


def big_models(sp):
    # solver-chosen large models (>= 2**24+1) of the path conditions, run on the un-instrumented library
    return True
