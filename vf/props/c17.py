"""C17 — residual graph hides only the decided and everything done."""
from __future__ import annotations

from .. import drivers as D
from .. import engine as E
from .. import models
from ..spec import Spec, vnot
from . import common as C

ID = "C17"
ASSUMPTIONS = [
    "durations are arbitrary integers >= 1 (the order of completions is decided by the solver: every feasible order is a path)",
    "the updater is attached to a fresh dispatcher; 'second' sub-spaces first play an episode of every length and reset() the dispatcher, "
    "then check the same invariants in the new episode; without filter and with the dominated-operations "
    "filter (as the environments install it); completion is judged at the dispatcher's current time recomputed from instance + history",
    "with an option switched off a machine/job node may still disappear as an isolated node (documented behaviour of remove_node); only "
    "'removed => all its operations scheduled' is demanded",
    "'detached' sub-spaces create the updater with subscribe=False (its completion observer listens from the start) and subscribe it by hand "
    "before a chosen dispatch; the invariants are demanded from the first dispatch it sees",
    "'late' sub-spaces CREATE the updater (and with it its completion observer) only after a chosen number >= 1 of dispatches, on the partly "
    "dispatched dispatcher (plain, or after current_time/completed/ongoing queries); all clauses are demanded from the first dispatch it sees",
    "a machine's operations are all operations eligible on it; the final clause (everything removed) is demanded only with the default "
    "options and on structures where every machine has at least one operation",
]
STUBS = ["max", "min", "int (dispatcher module only)", "np facade"]
BUDGET = {"quick": 480, "thorough": 3000}
BUILDERS = ["disj", "at", "atj", "cat"]
OPTIONS = [[True, True], [False, True], [True, False], [False, False]]


def bounds(tier):
    return _bounds(tier) + "; late: updater created after k>=1 dispatches, shapes <=3 ops and (2,2), M<=2 up to renaming, 4 builders"


def _bounds(tier):
    if tier == "quick":
        return ("4 graph builders x 4 option settings (remove machine / job nodes): ordered shapes <=3 jobs <=3 ops and (2,2),(2,1,1), all "
                "assignments M<=2; flexible M<=2 on <=3 ops (default options); filter none and dominated (default options); M=3 (up to renaming) on <=4 ops; all histories")
    return "quick + all shapes with 4 ops all options, 5 ops M<=3 up to renaming (default options), flexible on 4 ops"


def extra_models(sp):
    return models.numpy_facade_models()


def subspaces(tier):
    out = []
    s3 = D.shapes(3, 3) + [(2, 2), (2, 1, 1)]
    s4 = D.shapes(3, 4)
    for b in BUILDERS:
        for opt in OPTIONS:
            out += C.structure_subspaces(s3 if tier == "quick" else s4, 2, False, builder=b, options=opt, filter="none")
        out += C.structure_subspaces(D.shapes(3, 3), 2, True, only_flexible=True, builder=b, options=[True, True], filter="none")
        out += C.structure_subspaces(s3, 2, False, builder=b, options=[True, True], filter="dominated")
        out += [sp for sp in C.structure_subspaces(D.shapes(3, 4), 3, False, canonical=True, builder=b, options=[True, True], filter="none")
                if max(m[0] for m in sp["machines"]) == 2]
    for b in BUILDERS:
        out += C.structure_subspaces(D.shapes(3, 3), 2, False, canonical=True, builder=b, options=[True, True], filter="none", second=True)
    for b in BUILDERS:
        out += C.structure_subspaces(D.shapes(3, 3), 2, False, canonical=True, builder=b, options=[True, True], filter="none", detached=True)
    for b in BUILDERS:
        out += C.structure_subspaces(D.shapes(3, 3) + [(2, 2)], 2, False, canonical=True, builder=b, options=[True, True], filter="none", late="plain")
        out += C.structure_subspaces(D.shapes(3, 3), 2, False, canonical=True, builder=b, options=[True, True], filter="none", late="queried")
    for b in BUILDERS:
        out += C.tall_subspaces(builder=b, options=[True, True], filter="none")
        out += C.wide_subspaces(builder=b, options=[True, True], filter="none", pairs=((4, 5), (1, 8)), histories=("longfirst", "roundrobin"))
    s5 = [s for s in D.shapes(3, 5) if sum(s) == 5]
    for b in (["disj", "at"] if tier == "quick" else BUILDERS):
        out += C.structure_subspaces(s5, 3, False, canonical=True, builder=b, options=[True, True], filter="none")
    if tier == "thorough":
        for b in BUILDERS:
            out += C.structure_subspaces(s5, 3, False, canonical=True, builder=b, options=[True, True], filter="dominated")
            out += C.structure_subspaces([s for s in s4 if sum(s) == 4], 2, True, only_flexible=True, builder=b,
                                         options=[True, True], filter="dominated")
    return out


def cost(sp):
    return C.cost(sp) * 2 * (C.cost(sp) if sp.get('second') else 1) * (sum(sp['shape']) if sp.get('detached') or sp.get('late') else 1)


def harness(eng, sp):
    from job_shop_lib.dispatching import Dispatcher
    from job_shop_lib.graphs import (build_disjunctive_graph, build_agent_task_graph, build_agent_task_graph_with_jobs,
                                     build_complete_agent_task_graph, NodeType)
    from job_shop_lib.graphs.graph_updaters import ResidualGraphUpdater

    builders = {"disj": build_disjunctive_graph, "at": build_agent_task_graph, "atj": build_agent_task_graph_with_jobs,
                "cat": build_complete_agent_task_graph}
    filtered = sp["filter"] != "none"
    inst, desc = D.build_instance(eng, sp["shape"], sp["machines"], dmin=1)
    filt = C.make_filter(sp["filter"]) if filtered else None
    disp = Dispatcher(inst, ready_operations_filter=filt)
    rm_m, rm_j = sp["options"]
    key = f"C17/{sp['builder']}"
    def make_updater():
        try:
            return ResidualGraphUpdater(disp, builders[sp["builder"]](inst), remove_completed_machine_nodes=rm_m,
                                        remove_completed_job_nodes=rm_j, subscribe=not sp.get("detached"))
        except E.Unsupported:
            raise
        except Exception as ex:
            eng.fail(key + f"/constructor-raises-{type(ex).__name__}", f"{ex}"[:200])
            return None

    upd = None
    if not sp.get("late"):
        upd = make_updater()
        if upd is None:
            return
    if sp.get("second"):
        # an earlier episode of chosen length on the same dispatcher, then reset(): the invariants must hold in the new episode too
        s0 = Spec(desc)
        for _ in range(1 + eng.choice(desc.n_ops, "first-episode-length")):
            op, m = D.choose_dispatch(eng, desc, s0)
            disp.dispatch(D.op_by_id(inst, op), m)
            s0.apply(op, m)
        disp.reset()
        key += "/second-episode"
    spec = Spec(desc)
    n, M = desc.n_ops, desc.n_machines
    by_m = [[o for o in range(n) if m in desc.machines[o]] for m in range(M)]
    prev_removed = set()
    attach_at = eng.choice(n, "attach-before-dispatch") if sp.get("detached") else 0
    if sp.get("late"):
        attach_at = 1 + eng.choice(n - 1, "create-before-dispatch") if n > 1 else 0
        key += "/late"
    for k in range(n):
        if sp.get("detached") and k == attach_at:
            disp.subscribe(upd)     # created detached at the start (its completion observer has been listening), attached only now
        if sp.get("late") and k == attach_at:
            if sp["late"] == "queried":
                disp.current_time(), disp.completed_operations(), disp.ongoing_operations()
            upd = make_updater()    # updater (and its completion observer) created only now, on a partly dispatched dispatcher
            if upd is None:
                return
        op, m = D.choose_dispatch(eng, desc, spec)
        try:
            disp.dispatch(D.op_by_id(inst, op), m)
        except E.Unsupported:
            raise
        except E.PathAbort:
            raise
        except Exception as ex:
            eng.fail(key + f"/update-raises-{type(ex).__name__}", f"{ex}"[:200])
            return
        spec.apply(op, m)
        eng.reachable("transition")
        eng.reachable("state")
        if (sp.get("detached") or sp.get("late")) and k < attach_at:
            continue
        g = upd.job_shop_graph
        flags = list(g.removed_nodes)
        removed = {i for i, r in enumerate(flags) if r}
        in_graph = set(g.graph.nodes())
        if set(range(len(flags))) - removed != in_graph:
            eng.fail(key + "/removed_nodes-flags-disagree-with-the-graph", f"flags {sorted(removed)} graph {sorted(in_graph)}")
        for u, v in g.graph.edges():
            if u in removed or v in removed:
                eng.fail(key + "/edge-touches-a-removed-node", f"({u},{v})")
                break
        if not prev_removed <= removed:
            eng.fail(key + "/removal-not-permanent", f"{sorted(prev_removed - removed)} came back")
        prev_removed = removed
        ready = spec.ready_ops()
        avail = ready if filt is None else [o.operation_id for o in filt(disp, [D.op_by_id(inst, o) for o in ready])]
        now = spec.min_start(avail)
        items = []
        for node in g.nodes:
            i = node.node_id
            if node.node_type == NodeType.OPERATION:
                o = node.operation.operation_id
                if i in removed and o not in spec.start:
                    eng.fail(key + "/node-of-an-unscheduled-operation-removed", f"operation {o} after {spec.history}")
                elif i not in removed and o in spec.start:
                    items.append((spec.end[o] > now, key + "/completed-operation-still-in-the-graph"))
            elif node.node_type == NodeType.MACHINE and i in removed:
                if any(o not in spec.start for o in by_m[node.machine_id]):
                    eng.fail(key + "/machine-node-removed-before-all-its-operations-are-scheduled", f"machine {node.machine_id}")
            elif node.node_type == NodeType.JOB and i in removed:
                if any(o not in spec.start for o in desc.jobs[node.job_id]):
                    eng.fail(key + "/job-node-removed-before-all-its-operations-are-scheduled", f"job {node.job_id}")
        eng.prove_all(items)
        eng.observe("removed", sorted(removed))
    if rm_m and rm_j and all(by_m[m] for m in range(M)):
        if not all(upd.job_shop_graph.removed_nodes):
            left = [i for i, r in enumerate(upd.job_shop_graph.removed_nodes) if not r]
            eng.fail(key + "/nodes-left-when-the-schedule-is-complete", f"{left}")


def big_models(sp):
    # solver-chosen large models (>= 2**24+1) of the path conditions, run on the un-instrumented library
    return True
