"""C18 — the environments honour the Gymnasium contract."""
from __future__ import annotations

import itertools

from .. import drivers as D
from .. import engine as E
from .. import models
from ..spec import Spec
from . import common as C
from . import c19

ID = "C18"
ASSUMPTIONS = [
    "durations are arbitrary integers >= 1 (as the default dominated-operations filter of the environments assumes); gymnasium, networkx and "
    "numpy run unmodified; observation_space.contains() is the real gymnasium check whenever the feature arrays are concrete on a path "
    "(all observers except Duration and EarliestStartTime); for those two the arrays hold symbolic values behind the numpy facade: shapes and padding "
    "are compared with the declared space and membership in the Box bounds is a solver obligation per cell",
    "multi-instance environment: the generator runs against the symbolic RNG model of C19 (every randint an arbitrary in-range integer, every "
    "choice exhaustive); 2 episodes (thorough 3) after construction",
    "membership in the declared observation space is demanded when use_padding is on (its documented purpose is to maintain the shapes); "
    "with padding off only the agreement of mask, edge list and feature rows with the current graph/observers is checked",
    "legal decisions: every job with operations left x every eligible machine id of its next operation, and -1 when that operation has a "
    "single machine",
    "float32 rounding of feature values is outside the claim",
]
STUBS = ["max", "min", "int (dispatcher module only)", "np facade (only with Duration/EarliestStartTime observers)",
         "random (generator modules, multi env)"]
BUDGET = {"quick": 540, "thorough": 3300}
BUILDERS = ["disj", "at", "atj", "cat"]
CONFIGS = {
    "A": [("is_ready", None), ("is_scheduled", None)],
    "B": [("remaining_operations", None), ("is_completed", None), ("position_in_job", None)],
    "C": [("duration", None), ("earliest_start_time", None)],
    "D": [("is_completed", ["JOBS"]), ("is_ready", ["OPERATIONS", "MACHINES"])],
}


def bounds(tier):
    if tier == "quick":
        return ("single env: 8 combinations of 4 graph builders x observer configurations A-D x {default, no-filter/idle-reward/no-machine-removal/"
                "no-padding} on ordered shapes <=3 jobs <=3 ops, all assignments M<=2 up to renaming (+ M=3 on 3 ops), flexible M<=2 on <=2 ops, "
                "every decision sequence, and for three builder/configuration pairs a second episode after an earlier one of every length; multi env: 14 generator configurations (jobs, machines in {1,2,(1,2)}, also fewer jobs than machines: 1 job x 2 or 3 machines; recirculation off/on, "
                "2-4 builders, 2 observer configurations, both variants), 2 episodes, every RNG outcome, one decision sequence per episode")
    return "quick + every observer type x every supported feature-type subset (single env, (2,1) and (1,1,1)), 4 ops, multi env 3 episodes and (2,3)-machine ranges"


def uses_symbolic_features(sp):
    return any(t in ("duration", "earliest_start_time") for t, _ in cfg_of(sp))


def cfg_of(sp):
    return CONFIGS[sp["cfg"]] if isinstance(sp["cfg"], str) else [tuple(x) for x in sp["cfg"]]


def extra_models(sp):
    import job_shop_lib.generation._general_instance_generator as G
    import job_shop_lib.generation._instance_generator as I

    out = models.numpy_facade_models(include_rl=True) if uses_symbolic_features(sp) else []
    if sp["mode"] == "multi":
        out += [(G, "random", c19.RNG), (I, "random", c19.RNG)]
    return out


VARIANTS = [dict(filter="dominated", reward="mk", updater={}, padding=True),
            dict(filter="none", reward="idle", updater={"remove_completed_machine_nodes": False}, padding=False)]


def subspaces(tier):
    out = []
    s3 = D.shapes(3, 3)
    combos = [("disj", "A", 0), ("at", "B", 0), ("atj", "C", 0), ("cat", "D", 0), ("disj", "C", 1), ("at", "A", 1), ("atj", "B", 0),
              ("cat", "A", 0)]
    if tier == "thorough":
        combos = [(b, c, v) for b in BUILDERS for c in CONFIGS for v in (0, 1)]
    for b, cfg, v in combos:
        out += C.structure_subspaces(s3, 2, False, canonical=True, mode="single", builder=b, cfg=cfg, **VARIANTS[v])
    out += C.structure_subspaces(s3, 2, False, canonical=True, mode="single", builder="bare", cfg="A", **VARIANTS[0])
    for b, cfg in (("disj", "A"), ("at", "C"), ("cat", "B")):
        out += C.structure_subspaces(D.shapes(2, 2), 2, True, only_flexible=True, mode="single", builder=b, cfg=cfg, **VARIANTS[0])
    for b, cfg in (("disj", "A"), ("at", "B"), ("cat", "C")):
        out += C.structure_subspaces(s3, 2, False, canonical=True, mode="single", builder=b, cfg=cfg, episodes=2, **VARIANTS[0])
    for b in ("disj", "at"):
        out += [sp for sp in C.structure_subspaces([(1, 1, 1), (2, 1), (1, 2)], 3, False, canonical=True, mode="single", builder=b, cfg="A", **VARIANTS[0])
                if max(m[0] for m in sp["machines"]) == 2]
    multi = [(2, 2, False, "at", "A", 0, 2), ([1, 2], 2, False, "disj", "B", 0, 2), (2, [1, 2], False, "at", "B", 1, 2),
             ([1, 2], [1, 2], False, "at", "A", 0, 2), (1, 2, True, "disj", "A", 1, 2), (2, 2, True, "at", "A", 0, 1),
             (1, 2, True, "at", "B", 0, 2), (2, 1, False, "disj", "A", 0, 2), (1, 2, True, "atj", "A", 0, 2), (1, 2, True, "cat", "A", 0, 2),
             # fewer jobs than machines (allowed by default), without recirculation
             (1, 2, False, "at", "A", 0, 2), (1, 2, False, "disj", "B", 0, 1), (1, 3, False, "at", "A", 0, 1), (1, 3, False, "atj", "A", 0, 1)]
    if tier == "thorough":
        multi += [(nj, nm, r, b, c, v, 2) for nj in (1, 2, [1, 2]) for nm in (1, 2, [1, 2]) for r in (False, True) for b in BUILDERS
                  for c in ("A", "B") for v in (0, 1) if not (r and (nj != 1))]
        multi += [(2, 2, True, b, "A", 0, 1) for b in BUILDERS] + [([1, 2], [1, 2], False, "at", "A", 0, 3), ([1, 2], 3, False, "atj", "A", 0, 1)]
    for nj, nm, recirc, b, cfg, v, ep in multi:
        out.append(dict(mode="multi", shape=[1], machines=[[0]], num_jobs=nj, num_machines=nm, recirc=recirc,
                        builder=b, cfg=cfg, episodes=ep, **VARIANTS[v]))
    if tier == "thorough":
        from itertools import combinations

        support = {"is_ready": 3, "earliest_start_time": 3, "duration": 3, "is_scheduled": 3, "position_in_job": 1,
                   "remaining_operations": 2, "is_completed": 3}
        fts = {"position_in_job": ["OPERATIONS"], "remaining_operations": ["MACHINES", "JOBS"]}
        for t in support:
            all_ft = fts.get(t, ["OPERATIONS", "MACHINES", "JOBS"])
            for r in range(1, len(all_ft) + 1):
                for sub in combinations(all_ft, r):
                    for sh, ms in (([2, 1], [[0], [1], [0]]), ([1, 1, 1], [[0], [1], [1]])):
                        for b in BUILDERS:
                            out.append(dict(mode="single", shape=sh, machines=ms, builder=b, cfg=[[t, list(sub)]], **VARIANTS[0]))
        for b in BUILDERS:
            out += C.structure_subspaces([s for s in D.shapes(3, 4) if sum(s) == 4], 2, False, canonical=True, mode="single", builder=b,
                                         cfg="A", **VARIANTS[0])
    return out


def cost(sp):
    if sp["mode"] == "multi":
        mx = lambda x: x if isinstance(x, int) else x[1]
        return (mx(sp["num_jobs"]) * mx(sp["num_machines"])) ** (3 * sp["episodes"]) * (4 if sp["recirc"] else 1)
    return C.cost(dict(sp, filter="none")) * 3 * (sum(sp["shape"]) if sp.get("episodes") == 2 else 1)


# ---------------------------------------------------------------------------
def observer_configs(sp):
    from job_shop_lib.dispatching import DispatcherObserverConfig
    from job_shop_lib.dispatching.feature_observers import FeatureObserverType, FeatureType

    out = []
    for t, fts in cfg_of(sp):
        kw = {} if fts is None else {"feature_types": [getattr(FeatureType, f) for f in fts]}
        out.append(DispatcherObserverConfig(FeatureObserverType(t), kwargs=kw))
    return out


def builder_fn(name):
    from job_shop_lib.graphs import (build_disjunctive_graph, build_agent_task_graph, build_agent_task_graph_with_jobs,
                                     build_complete_agent_task_graph)

    def bare(instance):
        # a graph assembled by hand from the public building blocks: the disjunctive graph without source and sink nodes
        from job_shop_lib.graphs import JobShopGraph, add_disjunctive_edges, add_conjunctive_edges

        g = JobShopGraph(instance)
        add_disjunctive_edges(g)
        add_conjunctive_edges(g)
        return g

    return {"disj": build_disjunctive_graph, "at": build_agent_task_graph, "atj": build_agent_task_graph_with_jobs,
            "cat": build_complete_agent_task_graph, "bare": bare}[name]


def env_kwargs(sp):
    from job_shop_lib.dispatching import DispatcherObserverConfig, filter_dominated_operations
    from job_shop_lib.graphs.graph_updaters import ResidualGraphUpdater
    from job_shop_lib.reinforcement_learning import MakespanReward, IdleTimeReward

    return dict(
        reward_function_config=DispatcherObserverConfig(MakespanReward if sp["reward"] == "mk" else IdleTimeReward),
        graph_updater_config=DispatcherObserverConfig(ResidualGraphUpdater, kwargs=dict(sp["updater"])),
        ready_operations_filter=filter_dominated_operations if sp["filter"] == "dominated" else None,
        use_padding=sp["padding"],
    )


def check_observation(eng, sp, env, inner, obs, key, padded_to=None):
    """obs against the declared space and against the current graph."""
    import numpy as np

    space = env.observation_space
    symbolic = uses_symbolic_features(sp)
    if set(obs.keys()) != set(space.spaces.keys()):
        eng.fail(key + "/observation-keys-differ-from-space", f"{sorted(obs.keys())} vs {sorted(space.spaces.keys())}")
        return
    fixed_shape = bool(sp["padding"])   # documented: padding is what maintains the declared shapes
    if not fixed_shape:
        pass
    elif not symbolic:
        if not space.contains(obs):
            bad = [k for k, s in space.spaces.items() if not s.contains(obs[k])]
            eng.fail(key + "/observation-not-in-observation-space", f"keys {bad}: " +
                     "; ".join(f"{k}: shape {getattr(obs[k], 'shape', None)} dtype {getattr(obs[k], 'dtype', None)} space {space.spaces[k]}" for k in bad)[:300])
    else:
        import gymnasium as gym

        conds = []
        for k, s in space.spaces.items():
            if tuple(getattr(obs[k], "shape", ())) != tuple(s.shape):
                eng.fail(key + "/observation-shape-differs-from-space", f"{k}: {obs[k].shape} vs {s.shape}")
                continue
            if isinstance(s, gym.spaces.Box) and getattr(obs[k], "dtype", None) == object:
                # symbolic feature values: membership in the Box bounds is a solver obligation per cell
                lo, hi = s.low.ravel().tolist(), s.high.ravel().tolist()
                for x, l, h in zip(obs[k].ravel().tolist(), lo, hi):
                    if isinstance(x, float) and x != x:
                        eng.fail(key + "/observation-not-in-observation-space", f"{k}: NaN")
                        continue
                    if l != float("-inf"):
                        conds.append(x >= l)
                    if h != float("inf"):
                        conds.append(x <= h)
            elif not s.contains(obs[k]):
                eng.fail(key + "/observation-not-in-observation-space", f"key {k}: shape {obs[k].shape} dtype {obs[k].dtype} space {s}"[:300])
        if conds:
            eng.prove(E.vand(conds), key + "/observation-not-in-observation-space", "a feature value lies outside the declared Box bounds")
    g = inner.job_shop_graph
    rn = list(np.asarray(obs["removed_nodes"]).tolist())
    n = len(g.removed_nodes)
    if [bool(x) for x in rn[:n]] != [bool(x) for x in g.removed_nodes]:
        eng.fail(key + "/removed-node-mask-differs-from-graph", f"{rn[:n]} vs {list(g.removed_nodes)}")
    if not all(bool(x) for x in rn[n:]):
        eng.fail(key + "/removed-node-mask-padding-not-true-at-the-end", f"{rn[n:]}")
    ei = np.asarray(obs["edge_index"])
    edges = sorted((int(u), int(v)) for u, v in g.graph.edges())
    if not edges and not ei.size:
        pass
    elif ei.ndim != 2 or (ei.shape[0] != 2 and ei.size):
        eng.fail(key + "/edge-index-not-2xE", f"{ei.shape}")
    elif ei.size or edges:
        cols = [tuple(int(x) for x in c) for c in ei.T.tolist()]
        real, pad = cols[:len(edges)], cols[len(edges):]
        if sorted(real) != edges:
            eng.fail(key + "/edge-index-differs-from-graph-edges", f"{sorted(real)[:8]} vs {edges[:8]}")
        if any(c != (-1, -1) for c in pad):
            eng.fail(key + "/edge-index-padding-not-minus-one-at-the-end", f"{pad[:6]}")
        if pad and not (sp["padding"] or padded_to):
            eng.fail(key + "/edge-index-padded-although-padding-disabled")
    # feature matrices: real rows first, padding rows (-1) only at the end
    comp = inner.composite_observer
    for ft, mat in comp.features.items():
        got = obs[ft.value]
        rows = mat.shape[0]
        if tuple(got.shape[1:]) != tuple(mat.shape[1:]) or got.shape[0] < rows:
            eng.fail(key + "/feature-matrix-shape", f"{ft.value}: {got.shape} vs {mat.shape}")
            continue
        D.prove_snap_equal(eng, D.snap_value(got[:rows]), D.snap_value(mat), key + "/feature-rows-differ-from-observers")
        tail = got[rows:]
        if tail.size and not all(x == -1 for x in tail.ravel().tolist()):
            eng.fail(key + "/feature-padding-not-minus-one-at-the-end", f"{ft.value}: {tail.tolist()}")


def check_actions(eng, env, desc_jobs, spec_next, key):
    import numpy as np

    for j, ms in spec_next:
        for m in ms + ([-1] if len(ms) == 1 else []):
            if not env.action_space.contains(np.array([j, m])):
                eng.fail(key + "/legal-action-not-in-action-space", f"(job {j}, machine {m}) space {env.action_space}")


def harness(eng, sp):
    if sp["mode"] == "single":
        return single_harness(eng, sp)
    return multi_harness(eng, sp)


def single_harness(eng, sp):
    from job_shop_lib.reinforcement_learning import SingleJobShopGraphEnv

    inst, desc = D.build_instance(eng, sp["shape"], sp["machines"], dmin=1)
    key = "C18/single"
    try:
        env = SingleJobShopGraphEnv(builder_fn(sp["builder"])(inst), observer_configs(sp), **env_kwargs(sp))
        obs, info = env.reset()
    except E.Unsupported:
        raise
    except Exception as ex:
        eng.fail(key + f"/constructor-or-reset-raises-{type(ex).__name__}", f"{ex}"[:200])
        return
    eng.reachable("state")
    check_observation(eng, sp, env, env, obs, key + "/reset")
    if sp.get("episodes", 1) == 2:
        # an earlier episode of chosen length (one canonical decision sequence), then env.reset(): the contract holds in every episode
        s0 = Spec(desc)
        for _ in range(1 + eng.choice(desc.n_ops, "first-episode-length")):
            o = s0.ready_ops()[0]
            env.step((desc.job_of[o], desc.machines[o][0]))
            s0.apply(o, desc.machines[o][0])
        try:
            obs, info = env.reset()
        except E.Unsupported:
            raise
        except Exception as ex:
            eng.fail(key + f"/second-reset-raises-{type(ex).__name__}", f"{ex}"[:200])
            return
        key += "/second-episode"
        check_observation(eng, sp, env, env, obs, key + "/reset")
    spec = Spec(desc)
    run_episode(eng, sp, env, env, desc, spec, key)


def run_episode(eng, sp, env, inner, desc, spec, key, explore=True, episode=0):
    for k in range(desc.n_ops):
        legal = [(j, list(desc.machines[desc.jobs[j][spec.next_idx[j]]])) for j in range(desc.n_jobs)
                 if spec.next_idx[j] < len(desc.jobs[j])]
        check_actions(eng, env, desc.jobs, legal, key + ("/recirculation" if sp.get("recirc") else ""))
        if explore:
            op, m = D.choose_dispatch(eng, desc, spec)
        else:   # one canonical decision sequence per episode (step semantics are explored exhaustively in single mode)
            ready = spec.ready_ops()
            op = ready[0] if episode % 2 == 0 else ready[-1]
            m = desc.machines[op][0 if episode % 2 == 0 else -1]
        try:
            obs, reward, done, truncated, info = env.step((desc.job_of[op], m))
        except E.Unsupported:
            raise
        except E.PathAbort:
            raise
        except Exception as ex:
            eng.fail(key + f"/step-raises-{type(ex).__name__}", f"{ex}"[:200])
            return False
        spec.apply(op, m)
        eng.reachable("transition")
        eng.reachable("state")
        if truncated is not False:
            eng.fail(key + "/truncation-signalled")
        if bool(done) != spec.is_complete() or bool(done) != bool(inner.dispatcher.schedule.is_complete()):
            eng.fail(key + "/done-differs-from-schedule-complete", f"done={done} after {len(spec.history)} of {desc.n_ops}")
        check_observation(eng, sp, env, inner, obs, key + "/step")
        eng.observe("reward", reward)
    return True


def multi_harness(eng, sp):
    import job_shop_lib.generation._general_instance_generator as G
    import job_shop_lib.generation._instance_generator as I

    c19.RNG.reset(eng)
    undo = []
    if eng.mode == "conc":
        for mod in (G, I):
            undo.append((mod, mod.random))
            mod.random = c19.RNG
    try:
        _multi(eng, sp)
    finally:
        for mod, val in undo:
            mod.random = val


def _multi(eng, sp):
    from job_shop_lib.generation import GeneralInstanceGenerator
    from job_shop_lib.reinforcement_learning import MultiJobShopGraphEnv
    from ..spec import Desc

    tup = lambda x: x if isinstance(x, int) else tuple(x)
    key = "C18/multi"
    gen = GeneralInstanceGenerator(num_jobs=tup(sp["num_jobs"]), num_machines=tup(sp["num_machines"]), duration_range=(1, 9),
                                   allow_recirculation=sp["recirc"], seed=5)
    kw = env_kwargs(sp)
    try:
        env = MultiJobShopGraphEnv(gen, observer_configs(sp), graph_initializer=builder_fn(sp["builder"]), **kw)
    except E.Unsupported:
        raise
    except E.PathAbort:
        raise
    except Exception as ex:
        eng.fail(key + f"/constructor-raises-{type(ex).__name__}", f"{ex}"[:200])
        return
    jl, jh = (sp["num_jobs"],) * 2 if isinstance(sp["num_jobs"], int) else sp["num_jobs"]
    ml, mh = (sp["num_machines"],) * 2 if isinstance(sp["num_machines"], int) else sp["num_machines"]
    for ep in range(sp["episodes"]):
        try:
            obs, info = env.reset()
        except E.Unsupported:
            raise
        except E.PathAbort:
            raise
        except Exception as ex:
            kind = "recirculation" if sp["recirc"] else "no-recirculation"
            eng.fail(key + f"/reset-raises-{type(ex).__name__}/{kind}/{sp['builder']}", f"episode {ep}: {ex}"[:300])
            return
        eng.reachable("state")
        inner = env.single_job_shop_graph_env
        inst = inner.instance
        if not (jl <= inst.num_jobs <= jh) or any(not (ml <= len(j) <= mh) for j in inst.jobs):
            eng.fail(key + "/instance-outside-generator-ranges", f"{inst.num_jobs} jobs x {[len(j) for j in inst.jobs]}")
        # the episode must be built with the constructor's configuration
        upd = inner.graph_updater
        want_cls = kw["graph_updater_config"].class_type
        if type(upd) is not want_cls:
            eng.fail(key + "/episode-graph-updater-class-differs-from-constructor")
        for k_, v_ in sp["updater"].items():
            if getattr(upd, k_) != v_:
                eng.fail(key + "/episode-graph-updater-options-differ-from-constructor", f"{k_}={getattr(upd, k_)} instead of {v_}")
        if type(inner.reward_function) is not kw["reward_function_config"].class_type:
            eng.fail(key + "/episode-reward-class-differs-from-constructor")
        if inner.dispatcher.ready_operations_filter is not kw["ready_operations_filter"]:
            eng.fail(key + "/episode-filter-differs-from-constructor")
        if bool(inner.use_padding) != bool(sp["padding"]):
            eng.fail(key + "/episode-padding-flag-differs-from-constructor")
        got_types = [type(o).__name__ for o in inner.composite_observer.feature_observers]
        want_types = [c.class_type if isinstance(c.class_type, str) else c.class_type for c in observer_configs(sp)]
        if len(got_types) != len(want_types):
            eng.fail(key + "/episode-observers-differ-from-constructor", f"{got_types}")
        check_observation(eng, sp, env, inner, obs, key + "/reset", padded_to=True)
        desc = Desc([len(j) for j in inst.jobs], [list(o.machines) for j in inst.jobs for o in j],
                    [o.duration for j in inst.jobs for o in j])
        spec = Spec(desc)
        if not run_episode(eng, sp, env, inner, desc, spec, key, explore=False, episode=ep):
            return
