"""C19 — generated instances respect the requested shape and seed."""
from __future__ import annotations

from .. import drivers as D
from .. import engine as E
from ..spec import vand, veq

ID = "C19"
ASSUMPTIONS = [
    "the RNG is modelled as an arbitrary deterministic function of (seed, draw index): random.randint(a,b) is an arbitrary integer in [a,b] "
    "(sizes are concretised by bounded solver enumeration, durations stay symbolic), random.choice is an exhaustive choice; re-seeding with "
    "the same seed replays the same draws; statistical properties of the real Mersenne Twister are outside the claim",
    "parameters are satisfiable: machines_per_operation <= lower end of the machine range and, when fewer jobs than machines are disallowed, "
    "lower end of the job range >= lower end of the machine range (otherwise the generator cannot meet all clauses)",
    "'eligible machines are drawn from all M machines' is checked as reachability: over all RNG outcomes of a configuration every machine "
    "id below M must occur in some operation's machine list",
    "names: default suffix and a 69-character suffix; generators producing 100000+ instances are outside the claim",
    "two generators with the same seed are built and consumed one after the other",
]
STUBS = ["max", "min", "random (generator modules: seed, randint, choice)"]
BUDGET = {"quick": 420, "thorough": 2400}


def bounds(tier):
    if tier == "quick":
        return ("num_jobs in {1,2,3,(1,2),(2,3)}, num_machines in {1,2,3,(1,2),(2,3)} with jobs x machines <= 9 (<= 4 with recirculation or "
                "flexible machines); machines_per_operation in {1,2,(1,2)}; both flags both ways; duration range (1,99) symbolic; 2 instances per "
                "generator; iteration_limit 2; explicit generate(num_jobs, num_machines) arguments, both or only one of them (7 configurations); every RNG outcome")
    return "quick with jobs x machines <= 9 (<= 6 with recirculation / flexible), 3 instances per generator, iteration_limit 3"


def _maxv(x):
    return x if isinstance(x, int) else x[1]


def _minv(x):
    return x if isinstance(x, int) else x[0]


def subspaces(tier):
    out = []
    cap, cap2 = (9, 4) if tier == "quick" else (9, 6)
    sizes = [1, 2, 3, [1, 2], [2, 3]]
    for nj in sizes:
        for nm in sizes:
            for mpo in (1, 2, [1, 2]):
                for less in (True, False):
                    for recirc in (False, True):
                        if _maxv(mpo) > _minv(nm):
                            continue
                        if not less and _minv(nj) < _minv(nm):
                            continue
                        heavy = recirc or _maxv(mpo) > 1
                        if _maxv(nj) * _maxv(nm) > (cap2 if heavy else cap):
                            continue
                        if _maxv(mpo) > 1 and recirc:
                            continue  # recirculation flag is irrelevant for multi-machine operations
                        small = (not heavy) and _maxv(nj) * _maxv(nm) <= 4
                        out.append(dict(num_jobs=nj, num_machines=nm, mpo=mpo, less=less, recirc=recirc, mode="seeded",
                                        n=(2 if tier == "quick" else 3) if small else 1))
    for nj, nm in ((2, 2), ([1, 2], [1, 2]), (3, 2)):
        # iter mode generates 2*n instances: keep the product of RNG outcomes small
        if nj == 2:
            out.append(dict(num_jobs=nj, num_machines=nm, mpo=1, less=True, recirc=False, mode="iter", n=2 if tier == "quick" else 3))
        elif tier == "thorough" and nj != 3:
            out.append(dict(num_jobs=nj, num_machines=nm, mpo=1, less=True, recirc=False, mode="iter", n=2))
        out.append(dict(num_jobs=nj, num_machines=nm, mpo=1, less=True, recirc=False, mode="iter", n=1))
        out.append(dict(num_jobs=nj, num_machines=nm, mpo=1, less=True, recirc=False, mode="iter", n=1, long_name=True))
        out.append(dict(num_jobs=nj, num_machines=nm, mpo=1, less=False, recirc=False, mode="explicit", n=1))
    for nj, nm, less in (([1, 2], 2, True), ([1, 3], [1, 2], False), ([2, 3], [2, 3], False), ([1, 2], [1, 3], True)):
        out.append(dict(num_jobs=nj, num_machines=nm, mpo=1, less=less, recirc=False, mode="explicit", n=1))
    limit = 3000 if tier == "quick" else 12000
    return [sp for sp in out if outcomes(sp) ** (sp["n"] * (2 if sp["mode"] == "iter" else 1)) <= limit]


def outcomes(sp):
    """Upper estimate of the number of RNG outcomes of one generated instance (sizes at their maximum)."""
    from math import factorial

    J, M = _maxv(sp["num_jobs"]), _maxv(sp["num_machines"])
    k = _maxv(sp["mpo"])
    if k > 1:
        per_op = 0
        for kk in range(_minv(sp["mpo"]), k + 1):
            c = 1
            for i in range(kk):
                c *= (M - i)
            per_op += c
        return per_op ** (J * M)
    if sp["recirc"]:
        return M ** (J * M)
    return factorial(M) ** J


def cost(sp):
    return (_maxv(sp["num_jobs"]) * _maxv(sp["num_machines"])) ** 3 * (4 if sp["recirc"] or _maxv(sp["mpo"]) > 1 else 1)


class RandomModel:
    """Deterministic function of (stream, draw index)."""

    def __init__(self):
        self.eng = None
        self.reset(None)

    def reset(self, eng):
        self.eng = eng
        self.stream = "g"
        self.count = {"g": 0}
        self.cache = {}
        self.replays = 0

    def seed(self, s=None):
        self.stream = f"s{s}"
        self.count[self.stream] = 0

    def _next(self):
        i = self.count.get(self.stream, 0)
        self.count[self.stream] = i + 1
        return (self.stream, i)

    def randint(self, a, b):
        k = self._next()
        if k in self.cache and self.cache[k][0] == "int":
            self.replays += 1
            return self.cache[k][1]
        v = self.eng.fresh_int(f"r_{k[0]}_{k[1]}")
        self.eng.assume(vand(v >= a, v <= b))
        self.cache[k] = ("int", v)
        return v

    def choice(self, seq):
        seq = list(seq)
        k = self._next()
        if k in self.cache and self.cache[k][0] == "choice" and self.cache[k][2] == len(seq):
            self.replays += 1
            return seq[self.cache[k][1]]
        i = self.eng.choice(len(seq), "random.choice")
        self.cache[k] = ("choice", i, len(seq))
        return seq[i]


RNG = RandomModel()


def extra_models(sp):
    import job_shop_lib.generation._general_instance_generator as G
    import job_shop_lib.generation._instance_generator as I

    return [(G, "random", RNG), (I, "random", RNG)]


def harness(eng, sp):
    import job_shop_lib.generation._general_instance_generator as G
    import job_shop_lib.generation._instance_generator as I

    RNG.reset(eng)
    undo = []
    if eng.mode == "conc":
        for mod in (G, I):
            undo.append((mod, mod.random))
            mod.random = RNG
    try:
        _harness(eng, sp)
    finally:
        for mod, val in undo:
            mod.random = val


def _tup(x):
    return x if isinstance(x, int) else tuple(x)


def make(sp, seed, **kw):
    from job_shop_lib.generation import GeneralInstanceGenerator

    if sp.get("long_name"):
        kw = dict(kw, name_suffix="a_rather_long_but_perfectly_valid_name_suffix_for_generated_instances")
    return GeneralInstanceGenerator(num_jobs=_tup(sp["num_jobs"]), num_machines=_tup(sp["num_machines"]), duration_range=(1, 99),
                                    allow_less_jobs_than_machines=sp["less"], allow_recirculation=sp["recirc"],
                                    machines_per_operation=_tup(sp["mpo"]), seed=seed, **kw)


def check_instance(eng, sp, inst, key="C19"):
    jl, jh = (_minv(sp["num_jobs"]), _maxv(sp["num_jobs"]))
    ml, mh = (_minv(sp["num_machines"]), _maxv(sp["num_machines"]))
    kl, kh = (_minv(sp["mpo"]), _maxv(sp["mpo"]))
    nj = len(inst.jobs)
    if not jl <= nj <= jh:
        eng.fail(f"{key}/job-count-outside-range", f"{nj} not in [{jl},{jh}]")
    lens = {len(j) for j in inst.jobs}
    if len(lens) != 1:
        eng.fail(f"{key}/jobs-of-different-length", f"{sorted(lens)}")
        return None
    M = lens.pop()
    if not ml <= M <= mh:
        eng.fail(f"{key}/operations-per-job-outside-machine-range", f"{M} not in [{ml},{mh}]")
    conds = []
    for job in inst.jobs:
        for op in job:
            ms = list(op.machines)
            if any((not isinstance(m, int)) or m < 0 or m >= M for m in ms):
                eng.fail(f"{key}/machine-id-not-below-M", f"{ms} with M={M}")
            if len(set(ms)) != len(ms):
                eng.fail(f"{key}/duplicate-eligible-machine", f"{ms}")
            if not kl <= len(ms) <= kh:
                eng.fail(f"{key}/wrong-number-of-eligible-machines", f"{len(ms)} not in [{kl},{kh}]")
            conds.append(vand(op.duration >= 1, op.duration <= 99))
            for m in ms:
                eng.user.setdefault("seen", set()).add((M, m))
            eng.user.setdefault("Ms", set()).add(M)
        if kh == 1 and not sp["recirc"]:
            visited = sorted(op.machines[0] for op in job)
            if visited != list(range(M)):
                eng.fail(f"{key}/job-does-not-visit-every-machine-exactly-once", f"{visited} with M={M}")
    eng.prove(vand(conds), f"{key}/duration-outside-range")
    if not sp["less"] and nj < M:
        eng.fail(f"{key}/fewer-jobs-than-machines-although-disallowed", f"{nj} jobs, {M} machines")
    return M


def same_instance(eng, a, b, key):
    sa = [[tuple(op.machines) for op in job] for job in a.jobs]
    sb = [[tuple(op.machines) for op in job] for job in b.jobs]
    if sa != sb or a.name != b.name:
        eng.fail(key + "/structure-or-name-differs", f"{sa} {a.name} vs {sb} {b.name}")
        return
    eng.prove(vand([veq(x.duration, y.duration) for ja, jb in zip(a.jobs, b.jobs) for x, y in zip(ja, jb)]),
              key + "/durations-differ")


def _harness(eng, sp):
    from job_shop_lib.exceptions import ValidationError

    mode = sp["mode"]
    eng.reachable("state")
    if eng.mode == "conc" and eng.values.get("__coverage__"):
        return coverage_replay(eng, sp)
    try:
        if mode == "seeded":
            seed = 0 if (_maxv(sp["num_jobs"]) + _maxv(sp["num_machines"])) % 2 == 0 else 7   # 0 is a seed like any other
            g1 = make(sp, seed)
            first = [g1.generate() for _ in range(sp["n"])]
            for inst in first:
                eng.reachable("transition")
                check_instance(eng, sp, inst)
            names = [i.name for i in first]
            if len(set(names)) != len(names):
                eng.fail("C19/name-reused", f"{names}")
            g2 = make(sp, seed)
            second = [g2.generate() for _ in range(sp["n"])]
            for a, b in zip(first, second):
                same_instance(eng, a, b, "C19/same-seed")
            eng.observe("durs", [[op.duration for job in i.jobs for op in job] for i in first])
        elif mode == "iter":
            g = make(sp, 3, iteration_limit=sp["n"])
            got = list(g)
            if len(got) != sp["n"]:
                eng.fail("C19/iteration-does-not-yield-iteration_limit-instances", f"{len(got)} vs {sp['n']}")
            again = []
            extra = []
            for inst_ in g:                    # direct generate() calls inside the loop must not eat into the limit
                again.append(inst_)
                if len(extra) < 1:
                    extra.append(g.generate())
            if len(again) != sp["n"]:
                eng.fail("C19/second-iteration-does-not-yield-iteration_limit-instances", f"{len(again)} vs {sp['n']}")
            names = [i.name for i in got + again + extra]
            if len(set(names)) != len(names):
                eng.fail("C19/name-reused", f"{names}")
            for inst in got + again:
                eng.reachable("transition")
                check_instance(eng, sp, inst)
            if len(g) != sp["n"]:
                eng.fail("C19/len-differs-from-iteration_limit")
            eng.observe("n", len(got))
        else:
            g = make(sp, None)
            variant = eng.choice(3, "explicit-variant")
            jl, jh = _minv(sp["num_jobs"]), _maxv(sp["num_jobs"])
            ml, mh = _minv(sp["num_machines"]), _maxv(sp["num_machines"])
            if variant == 1:
                # only the machine count is given: the job count is drawn; an instance that IS returned must meet every clause
                km = ml + eng.choice(mh - ml + 1, "explicit-num_machines")
                try:
                    inst = g.generate(num_machines=km)
                except ValidationError:
                    if sp["less"] or jl >= km:
                        eng.fail("C19/explicit-num_machines-rejected-although-satisfiable", f"num_machines={km}")
                    return
                eng.reachable("transition")
                if any(len(j) != km for j in inst.jobs):
                    eng.fail("C19/explicit-arguments-ignored", f"num_machines={km}: {[len(j) for j in inst.jobs]}")
                check_instance(eng, sp, inst)
                eng.observe("n", len(inst.jobs))
                return
            if variant == 2:
                # only the job count is given: the machine count is drawn
                kj = jl + eng.choice(jh - jl + 1, "explicit-num_jobs")
                inst = g.generate(num_jobs=kj)
                eng.reachable("transition")
                if len(inst.jobs) != kj:
                    eng.fail("C19/explicit-arguments-ignored", f"num_jobs={kj}: {len(inst.jobs)}")
                check_instance(eng, sp, inst)
                eng.observe("n", len(inst.jobs))
                return
            nj, nm = _maxv(sp["num_jobs"]), _minv(sp["num_machines"])
            inst = g.generate(num_jobs=nj, num_machines=nm)
            eng.reachable("transition")
            if len(inst.jobs) != nj or any(len(j) != nm for j in inst.jobs):
                eng.fail("C19/explicit-arguments-ignored", f"{len(inst.jobs)}x{[len(j) for j in inst.jobs]}")
            check_instance(eng, sp, inst)
            if nj < nm + 1 and not sp["less"]:
                try:
                    g.generate(num_jobs=nm, num_machines=nm + 1)
                    eng.fail("C19/explicit-fewer-jobs-than-machines-accepted-although-disallowed")
                except ValidationError:
                    pass
            eng.observe("n", len(inst.jobs))
    except E.Unsupported:
        raise
    except E.PathAbort:
        raise
    except Exception as ex:
        eng.fail(f"C19/generator-raises-{type(ex).__name__}", f"{ex}"[:300])


def finalize(eng, sp):
    """Reachability clause: every machine id below M occurs for some RNG outcome."""
    seen = eng.user.get("seen", set())
    for M in sorted(eng.user.get("Ms", set())):
        missing = [m for m in range(M) if (M, m) not in seen]
        eng.stats["obligations"] += 1
        if missing:
            eng.violations.append(E.Violation("C19/eligible-machines-not-drawn-from-all-M-machines",
                                              f"with M={M} machine ids {missing} never occur in any operation for any RNG outcome",
                                              {"__coverage__": 1, "M": M, "missing": missing}, []))
        else:
            eng.stats["proved_trivial"] += 1


def coverage_replay(eng, sp):
    """Demonstration for the reachability clause with the REAL random module: over 400 real seeds the missing machine ids never occur."""
    import random as real_random
    import job_shop_lib.generation._general_instance_generator as G
    import job_shop_lib.generation._instance_generator as I

    saved = (G.random, I.random)
    G.random = I.random = real_random
    try:
        M, missing = eng.values["M"], set(eng.values["missing"])
        seen, n = set(), 0
        for seed in range(400):
            inst = make(sp, seed).generate()
            if len(inst.jobs[0]) != M:
                continue
            n += 1
            for job in inst.jobs:
                for op in job:
                    seen.update(op.machines)
        if n and not (missing & seen):
            eng.fail("C19/eligible-machines-not-drawn-from-all-M-machines",
                     f"real RNG, {n} generated instances with M={M}: machine ids {sorted(missing)} never occur")
    finally:
        G.random, I.random = saved
