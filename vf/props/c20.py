"""C20 — Gantt charts and animations show the schedule that was built."""
from __future__ import annotations

import re
import types

import z3

from .. import drivers as D
from .. import engine as E
from ..spec import Spec, vand, vor, veq
from . import common as C

ID = "C20"
ASSUMPTIONS = [
    "the claim is about the calls made on the matplotlib Axes/Figure and on the file system (bars, limits, ticks, legend patches, file "
    "names, load order), not about pixels, fonts or the GIF/MP4 encoders",
    "plt.subplots returns a recording Axes/Figure; plt.get_cmap, Normalize and Patch are the real matplotlib objects; savefig, os.listdir, "
    "imageio.imread/mimsave, shutil.rmtree and Path.mkdir are recording stubs",
    "bars mode with an explicit xlim: durations arbitrary integers >= 0; bars mode without xlim: durations in [0,2] because the tick code "
    "needs range(makespan), which is concretised by bounded solver enumeration",
    "frame order: two symbolic frame numbers 1 <= i < j <= 100000 go through the real _save_frame and _load_images; formatted numbers are "
    "tokens whose lexicographic order is encoded digit by digit over linear integer arithmetic; int(<formatted number>) is the number",
    "reuse mode: two animations (gif, then gif or video) of two arbitrary complete histories of one instance rendered into the same "
    "frames_dir with remove_frames=False; the recording file system keeps per file the figure written last; the frames loaded by the "
    "second call must show the second history (a frames_dir holding frames of a LONGER earlier history is outside the claim)",
    "row of a machine: all bars of one machine share one y-range, y-ranges of different machines are disjoint and increase with the "
    "machine id, and the y tick of machine m lies inside its y-range",
]
STUBS = ["max", "min", "plt (visualization modules)", "os.listdir", "imageio", "shutil.rmtree", "pathlib.Path.mkdir", "int (frame module)"]
BUDGET = {"quick": 420, "thorough": 2400}


def bounds(tier):
    return _bounds(tier) + "; reuse: two histories into one kept frames_dir, shapes <=3 ops M<=2 up to renaming, all pairs of histories"


def _bounds(tier):
    if tier == "quick":
        return ("bars: ordered shapes <=3 jobs <=4 ops, all assignments M<=2 and flexible M<=2 on <=3 ops, every history and every prefix "
                "(partial schedules), xlim in {given=7, None}; frames (a): shapes <=3 ops and (2,2) M<=2, every history, history-driven and "
                "solver-driven; frames (b): symbolic frame numbers 1<=i<j<=100000, both listing orders")
    return "quick + bars on 5 ops M<=3 up to renaming; frames (a) on 4 ops"


def subspaces(tier):
    out = []
    s4, s3 = D.shapes(3, 4), D.shapes(3, 3)
    for xl in (7, None):
        out += C.structure_subspaces(s4 if xl else s3 + [(2, 2)], 2, False, mode="bars", xlim=xl)
        out += C.structure_subspaces(s3 if xl else D.shapes(2, 2), 2, True, only_flexible=True, mode="bars", xlim=xl)
    fs = s3 + [(2, 2)] if tier == "quick" else s4
    out += C.structure_subspaces(fs, 2, False, mode="frames", source="history")
    out += C.structure_subspaces(s3, 2, False, mode="frames", source="solver")
    out += C.structure_subspaces(D.shapes(2, 2), 2, True, only_flexible=True, mode="frames", source="history")
    for ep in (1, 2):
        out += C.structure_subspaces(D.shapes(2, 3) if ep == 2 and tier == "quick" else s3, 2, False, mode="creator", episodes=ep)
    for sec in ("gif", "video"):
        out += C.structure_subspaces(D.shapes(3, 3), 2, False, canonical=True, mode="reuse", second=sec)
    # the same two-frame query per decade boundary, so that a witness is concretised (and replayed end to end) with 10, 100, 1000 frames
    for ir, jr in (([1, 9], [10, 99]), ([10, 99], [100, 999]), ([100, 999], [1000, 1200])):
        out.append(dict(mode="order", shape=[1], machines=[[0]], listing="ji", limit=100000, irange=ir, jrange=jr))
    out.append(dict(mode="order", shape=[1], machines=[[0]], listing="ij", limit=100000))
    out.append(dict(mode="order", shape=[1], machines=[[0]], listing="ji", limit=100000))
    if tier == "thorough":
        out += C.structure_subspaces([s for s in D.shapes(3, 5) if sum(s) == 5], 3, False, canonical=True, mode="bars", xlim=9)
        out.append(dict(mode="order", shape=[1], machines=[[0]], listing="ji", limit=10 ** 7))
    return out


def cost(sp):
    if sp["mode"] == "reuse":
        return C.cost(dict(sp, filter="none")) ** 2
    return C.cost(dict(sp, filter="none")) * (3 if sp.get("xlim") is None and sp["mode"] == "bars" else 1)


# ---------------------------------------------------------------------------
# recording matplotlib
# ---------------------------------------------------------------------------
class AxStub:
    def __init__(self):
        self.bars, self.calls = [], {}
        self.transAxes = None
        self.yaxis = self

    def broken_barh(self, xranges, yrange, **kw):
        for x in xranges:
            self.bars.append((x[0], x[1], tuple(yrange), kw.get("facecolors", kw.get("facecolor"))))

    def __getattr__(self, name):
        def rec(*a, **k):
            self.calls.setdefault(name, []).append((a, k))
        return rec


class FigStub:
    def __init__(self, ax=None):
        self.ax, self.saved, self.texts = ax, [], []

    def savefig(self, path, **kw):
        REC.saved.append((path, self))
        self.saved.append(path)

    def text(self, *a, **k):
        self.texts.append((a, k))

    def __getattr__(self, name):
        return lambda *a, **k: None


class Rec:
    def __init__(self):
        self.reset()

    def reset(self):
        self.saved, self.figs, self.loaded, self.mimsave, self.listing = [], [], [], [], None


REC = Rec()


def plt_stub():
    import matplotlib.pyplot as real

    def subplots(*a, **k):
        ax = AxStub()
        fig = FigStub(ax)
        REC.figs.append(fig)
        return fig, ax

    return types.SimpleNamespace(subplots=subplots, title=lambda *a, **k: None, get_cmap=real.get_cmap,
                                 close=lambda *a, **k: None, Axes=real.Axes, Figure=real.Figure)


# ---------------------------------------------------------------------------
# formatted symbolic numbers
# ---------------------------------------------------------------------------
TOKENS = {}
TOKEN_RE = re.compile("\x00S(\\d+)\x00")


class SymStr(str):
    """A file name containing one formatted symbolic number (token)."""

    def _parts(self):
        m = TOKEN_RE.search(str.__str__(self))
        if not m:
            return None
        s = str.__str__(self)
        return s[:m.start()], TOKENS[int(m.group(1))], s[m.end():]

    def __lt__(self, other):
        a, b = self._parts(), other._parts() if isinstance(other, SymStr) else None
        if a is None or b is None:
            raise E.Unsupported("comparison of symbolic file name with plain string")
        return lex_less(a, b)

    def __gt__(self, other):
        return other.__lt__(self)

    def __le__(self, other):
        return E.vnot(other.__lt__(self))

    def __ge__(self, other):
        return E.vnot(self.__lt__(other))

    __hash__ = str.__hash__


def format_hook(v, spec):
    m = re.fullmatch(r"0?(\d*)d", spec or "d")
    if not m:
        return repr(v)
    width = int(m.group(1) or 0) if spec.startswith("0") else 0
    k = len(TOKENS) + 1
    TOKENS[k] = (v, width)
    return f"\x00S{k}\x00"


def chars_of(prefix, tok, suffix, npos):
    """char codes (z3 terms / ints) of prefix + format(tok) + suffix, 0 beyond the end."""
    v, width = tok
    e = v.e
    maxd = 8
    nd = z3.IntVal(1)
    for d in range(2, maxd + 1):
        nd = z3.If(e >= 10 ** (d - 1), d, nd)
    n = z3.If(nd >= width, nd, width) if width > 1 else nd
    out = [ord(c) for c in prefix]
    for p in range(npos - len(prefix)):
        # digit at position p of the zero padded rendering of length n
        digit = z3.IntVal(0)
        for L in range(1, maxd + 1):
            if p < L:
                digit = z3.If(n == L, (e / (10 ** (L - 1 - p))) % 10, digit)
        c = 48 + digit
        tail = z3.IntVal(0)
        for q, ch in enumerate(suffix):
            tail = z3.If(n + q == p, ord(ch), tail)
        out.append(z3.If(p < n, c, tail))
    return out


def lex_less(a, b):
    eng = a[1][0].eng
    npos = max(len(a[0]), len(b[0])) + 8 + max(len(a[2]), len(b[2])) + 1
    ca, cb = chars_of(a[0], a[1], a[2], npos), chars_of(b[0], b[1], b[2], npos)
    less = z3.BoolVal(False)
    for x, y in reversed(list(zip(ca, cb))):
        if isinstance(x, int) and isinstance(y, int):
            less = z3.BoolVal(True) if x < y else (z3.BoolVal(False) if x > y else less)
        else:
            less = z3.If(x < y, True, z3.If(x > y, False, less))
    return E.SBool(eng, z3.simplify(less))


class _IntMeta(type):
    def __instancecheck__(cls, obj):
        return isinstance(obj, (int, E.SInt))

    def __call__(cls, *a, **k):
        if a and isinstance(a[0], str):
            m = TOKEN_RE.fullmatch(str.__str__(a[0]))
            if m:
                return TOKENS[int(m.group(1))][0]
        return E.sym_int(*a, **k)


class tok_int(metaclass=_IntMeta):
    pass


def os_stub():
    import os as real

    def listdir(d):
        if REC.listing is None:
            names = list(dict.fromkeys(real.path.basename(p) for p, _ in REC.saved))   # a file written twice exists once
        else:
            names = REC.listing
        return [SymStr(n) if TOKEN_RE.search(n) else n for n in names]

    return types.SimpleNamespace(listdir=listdir, path=real.path, PathLike=real.PathLike, sep=real.sep)


def imageio_stub():
    def imread(path):
        import numpy as np

        REC.loaded.append(path)
        return np.zeros((16, 16, 3), dtype=np.uint8)

    def mimsave(path, images, **kw):
        REC.mimsave.append((path, list(images)))

    return types.SimpleNamespace(imread=imread, mimsave=mimsave)


def _env_models():
    import job_shop_lib.visualization._plot_gantt_chart as P
    import job_shop_lib.visualization._gantt_chart_video_and_gif_creation as V

    pathlib_stub = types.SimpleNamespace(Path=lambda p: types.SimpleNamespace(mkdir=lambda **k: None, __str__=lambda: p) and _P(p))
    return [(P, "plt", plt_stub()), (V, "plt", plt_stub()), (V, "os", os_stub()), (V, "imageio", imageio_stub()),
            (V, "shutil", types.SimpleNamespace(rmtree=lambda *a, **k: None)), (V, "pathlib", types.SimpleNamespace(Path=_P)),
            (V, "int", tok_int)]


class _P:
    def __init__(self, p):
        self.p = str(p)

    def mkdir(self, **k):
        pass

    def __str__(self):
        return self.p


def extra_models(sp):
    return _env_models()


def configure_engine(eng, sp):
    eng.format_hook = format_hook


def harness(eng, sp):
    REC.reset()
    TOKENS.clear()
    undo = []
    if eng.mode == "conc":   # concrete re-run: the library is un-instrumented, only the environment is recorded
        for mod, name, val in _env_models():
            if name == "int":
                continue
            undo.append((mod, name, mod.__dict__.get(name)))
            setattr(mod, name, val)
    try:
        if sp["mode"] == "bars":
            bars_harness(eng, sp)
        elif sp["mode"] == "frames":
            frames_harness(eng, sp)
        elif sp["mode"] == "creator":
            creator_harness(eng, sp)
        elif sp["mode"] == "reuse":
            reuse_harness(eng, sp)
        else:
            order_harness(eng, sp)
    finally:
        for mod, name, val in undo:
            setattr(mod, name, val)


# ---------------------------------------------------------------------------
def check_chart(eng, desc, spec, fig, xlim, key="C20/bars", job_labels=None):
    ax = fig.ax
    sched = spec.scheduled_ops()
    if len(ax.bars) != len(sched):
        eng.fail(key + "/number-of-bars-differs-from-scheduled-operations", f"{len(ax.bars)} bars, {len(sched)} operations")
        return
    # bars are matched to operations machine by machine in list order (the documented per-machine order)
    by_row = {}
    for b in ax.bars:
        by_row.setdefault(b[2], []).append(b)
    rows = sorted(by_row)
    used = [m for m in range(desc.n_machines) if spec.by_machine[m]]
    if len(rows) != len(used):
        eng.fail(key + "/rows-do-not-match-machines", f"{len(rows)} rows for machines {used}")
        return
    items = []
    colours = {}
    yticks = ax.calls.get("set_yticks", [((None,), {})])[-1][0][0]
    for row, m in zip(rows, used):
        ops = spec.by_machine[m]
        bars = by_row[row]
        if len(bars) != len(ops):
            eng.fail(key + "/bars-in-wrong-row", f"machine {m}: {len(bars)} bars, {len(ops)} operations")
            return
        if yticks is not None and len(yticks) == desc.n_machines and not (row[0] <= yticks[m] <= row[0] + row[1]):
            eng.fail(key + "/row-does-not-carry-the-machine-tick", f"machine {m} row {row} tick {yticks[m]}")
        # match as multisets: some bar for every operation with equal (start,width) - in list order
        for o, b in zip(ops, bars):
            items.append((veq(b[0], spec.start[o]), key + "/bar-does-not-start-at-start-time"))
            items.append((veq(b[1], desc.dur[o]), key + "/bar-width-is-not-the-duration"))
            colours.setdefault(desc.job_of[o], set()).add(tuple(b[3]) if b[3] is not None else None)
    for r1, r2 in zip(rows, rows[1:]):
        if r1[0] + r1[1] > r2[0]:
            eng.fail(key + "/machine-rows-overlap", f"{r1} {r2}")
    for j, cs in colours.items():
        if len(cs) != 1:
            eng.fail(key + "/operations-of-one-job-have-different-colours", f"job {j}: {cs}")
    flat = [next(iter(cs)) for cs in colours.values()]
    if len(set(flat)) != len(flat):
        eng.fail(key + "/two-jobs-share-a-colour", f"{colours}")
    leg = ax.calls.get("legend", [])
    if not leg:
        eng.fail(key + "/no-legend")
    else:
        handles = leg[-1][1].get("handles", [])
        labels = {h.get_label(): tuple(h.get_facecolor()) for h in handles}
        for j, cs in colours.items():
            c = next(iter(cs))
            lab = f"Job {j}" if job_labels is None else job_labels[j]
            if lab not in labels:
                eng.fail(key + "/legend-misses-a-job", f"{lab} not in {sorted(labels)}")
            elif c is None or tuple(round(float(x), 6) for x in labels[lab]) != tuple(round(float(x), 6) for x in c):
                eng.fail(key + "/legend-colour-differs-from-bar-colour", f"{lab}: {labels[lab]} vs {c}")
        if len(labels) != len(colours):
            eng.fail(key + "/legend-lists-jobs-without-bars", f"{sorted(labels)} vs jobs {sorted(colours)}")
    L = xlim if xlim is not None else spec.makespan()
    sx = ax.calls.get("set_xlim", [])
    if not sx:
        eng.fail(key + "/time-axis-limit-not-set")
    else:
        a = sx[-1][0]
        items.append((vand(veq(a[0], 0), veq(a[1], L)), key + "/time-axis-does-not-end-at-makespan-or-requested-limit"))
    st = ax.calls.get("set_xticks", [])
    if st and len(st[-1][0][0]):
        items.append((veq(st[-1][0][0][-1], L), key + "/last-tick-is-not-the-axis-end"))
    eng.prove_all(items)


def bars_harness(eng, sp):
    from job_shop_lib.dispatching import Dispatcher
    from job_shop_lib.visualization import plot_gantt_chart

    inst, desc = D.build_instance(eng, sp["shape"], sp["machines"], dmin=0)
    if sp["xlim"] is None:
        for d in desc.dur:
            eng.assume(d <= 2)
    disp = Dispatcher(inst)
    spec = Spec(desc)
    for k in range(desc.n_ops + 1):
        eng.reachable("state")
        REC.reset()
        try:
            labels = [f"job <{j}>" for j in range(desc.n_jobs)] if sp["xlim"] else None
            fig, ax = plot_gantt_chart(disp.schedule, xlim=sp["xlim"], job_labels=labels)
        except E.Unsupported:
            raise
        except E.PathAbort:
            raise
        except Exception as ex:
            if k == 0 and sp["xlim"] is None:
                pass   # empty schedule without a limit: axis of length 0, nothing demanded
            else:
                eng.fail(f"C20/bars/exception-{type(ex).__name__}", f"{ex}"[:200])
            fig = None
        if fig is not None:
            check_chart(eng, desc, spec, fig, sp["xlim"], job_labels=labels)
        if k == desc.n_ops:
            break
        op, m = D.choose_dispatch(eng, desc, spec)
        disp.dispatch(D.op_by_id(inst, op), m)
        spec.apply(op, m)
        eng.reachable("transition")
        eng.observe("s", spec.start[op])


def frames_harness(eng, sp):
    from job_shop_lib.dispatching import Dispatcher, HistoryObserver
    from job_shop_lib.visualization import create_gantt_chart_frames

    inst, desc = D.build_instance(eng, sp["shape"], sp["machines"], dmin=0)
    spec = Spec(desc)
    solver = None
    if sp["source"] == "history":
        disp = Dispatcher(inst)
        hist = HistoryObserver(disp)
        for k in range(desc.n_ops):
            op, m = D.choose_dispatch(eng, desc, spec)
            disp.dispatch(D.op_by_id(inst, op), m)
            spec.apply(op, m)
            eng.reachable("transition")
        history = list(hist.history)
    else:
        from job_shop_lib.dispatching.rules import DispatchingRuleSolver

        solver = DispatchingRuleSolver("most_work_remaining")
        disp = Dispatcher(inst, ready_operations_filter=solver.ready_operations_filter)
        hist = HistoryObserver(disp)
        solver.solve(inst, disp)
        for s in hist.history:
            spec.apply(s.operation.operation_id, s.machine_id)
        history = None
    shots = []

    def plot_function(schedule, makespan=None, available_operations=None, current_time=None):
        shots.append((D.lib_lists(schedule), makespan, current_time))
        fig = FigStub()
        return fig

    REC.reset()
    try:
        create_gantt_chart_frames("frames_dir", inst, solver, plot_function, True, history)
    except E.Unsupported:
        raise
    except Exception as ex:
        eng.fail(f"C20/frames/exception-{type(ex).__name__}", f"{ex}"[:200])
        return
    eng.reachable("state")
    n = desc.n_ops
    if len(shots) != n or len(REC.saved) != n:
        eng.fail("C20/frames/number-of-frames-differs-from-history-length", f"{len(shots)} plotted, {len(REC.saved)} saved, {n} dispatched")
        return
    prefix = Spec(desc)
    items = []
    for k, (op, m) in enumerate(spec.history, start=1):
        prefix.apply(op, m)
        lists, mk, now = shots[k - 1]
        got = {o: (st, mm) for l in lists for (o, st, mm) in l}
        if sorted(got) != prefix.scheduled_ops() or any(got[o][1] != prefix.machine_of[o] for o in got):
            eng.fail("C20/frames/frame-k-does-not-show-the-first-k-operations", f"frame {k}: {sorted(got)} vs {prefix.scheduled_ops()}")
            return
        items += [(veq(got[o][0], prefix.start[o]), "C20/frames/frame-k-shows-wrong-start-times") for o in got]
        items.append((veq(mk, spec.makespan()), "C20/frames/time-axis-is-not-the-final-makespan"))
        name = REC.saved[k - 1][0]
        nums = re.findall(r"(\d+)", str(name).rsplit("/", 1)[-1])
        if not nums or int(nums[-1]) != k:
            eng.fail("C20/frames/frame-file-not-numbered-by-position", f"{name} for frame {k}")
    eng.prove_all(items)
    eng.observe("mk", spec.makespan())


def reuse_harness(eng, sp):
    """Two animations of DIFFERENT histories of one instance rendered one after the other into the same frames directory,
    the first one keeping its frames (remove_frames=False): the recording file system holds, per file, what was written
    last; the images handed to the encoder by the second call must show the second history."""
    from job_shop_lib.dispatching import Dispatcher, HistoryObserver
    from job_shop_lib.visualization import create_gantt_chart_gif, create_gantt_chart_video

    inst, desc = D.build_instance(eng, sp["shape"], sp["machines"], dmin=0)
    specs, hists = [], []
    for _ in range(2):
        spec = Spec(desc)
        disp = Dispatcher(inst)
        hist = HistoryObserver(disp)
        for k in range(desc.n_ops):
            op, m = D.choose_dispatch(eng, desc, spec)
            disp.dispatch(D.op_by_id(inst, op), m)
            spec.apply(op, m)
            eng.reachable("transition")
        specs.append(spec)
        hists.append(list(hist.history))

    def plot_function(schedule, makespan=None, available_operations=None, current_time=None):
        fig = FigStub()
        fig.shot = (D.lib_lists(schedule), makespan, current_time)
        return fig

    REC.reset()
    second = create_gantt_chart_gif if sp["second"] == "gif" else create_gantt_chart_video
    try:
        create_gantt_chart_gif(inst, "a.gif", None, plot_function, remove_frames=False, frames_dir="frames_dir", schedule_history=hists[0])
        n_loaded = len(REC.loaded)
        second(inst, "b.gif" if sp["second"] == "gif" else "b.mp4", None, plot_function, remove_frames=False, frames_dir="frames_dir",
               schedule_history=hists[1])
    except E.Unsupported:
        raise
    except Exception as ex:
        eng.fail(f"C20/reuse/exception-{type(ex).__name__}", f"{ex}"[:200])
        return
    eng.reachable("state")
    n = desc.n_ops
    loaded = [str(x) for x in REC.loaded[n_loaded:]]
    if len(loaded) != n or len(REC.mimsave) != 2 or len(REC.mimsave[-1][1]) != n:
        eng.fail("C20/reuse/number-of-frames-differs-from-history-length", f"{len(loaded)} frames loaded for {n} dispatches")
        return
    content = {}
    for path, fig in REC.saved:
        content[str(path)] = fig       # what the file holds now: the figure written last
    spec, prefix, items = specs[1], Spec(desc), []
    for k, (op, m) in enumerate(spec.history, start=1):
        prefix.apply(op, m)
        fig = content.get(loaded[k - 1])
        if fig is None or not hasattr(fig, "shot"):
            eng.fail("C20/reuse/frame-file-was-never-written", loaded[k - 1])
            return
        lists, mk, now = fig.shot
        got = {o: (st, mm) for l in lists for (o, st, mm) in l}
        if sorted(got) != prefix.scheduled_ops() or any(got[o][1] != prefix.machine_of[o] for o in got):
            eng.fail("C20/reuse/frame-k-does-not-show-the-first-k-operations-of-this-history",
                     f"frame {k}: {sorted(got)} vs {prefix.scheduled_ops()} (history {spec.history}, earlier animation {specs[0].history})")
            return
        items += [(veq(got[o][0], prefix.start[o]), "C20/reuse/frame-k-shows-wrong-start-times") for o in got]
        items.append((veq(mk, spec.makespan()), "C20/reuse/time-axis-is-not-the-final-makespan"))
    eng.prove_all(items)
    eng.observe("mk", spec.makespan())


def creator_harness(eng, sp):
    """GanttChartCreator.create_gif/create_video after one or two episodes on the same dispatcher."""
    from job_shop_lib.dispatching import Dispatcher
    from job_shop_lib.visualization import GanttChartCreator

    inst, desc = D.build_instance(eng, sp["shape"], sp["machines"], dmin=0)
    for d in desc.dur:
        eng.assume(d <= 2)
    disp = Dispatcher(inst)
    creator = GanttChartCreator(disp)
    spec = Spec(desc)
    for ep in range(sp["episodes"]):
        last = ep == sp["episodes"] - 1
        spec = Spec(desc)
        n = desc.n_ops if last else 1 + eng.choice(desc.n_ops, "first-episode-length")
        for _ in range(n):
            op, m = D.choose_dispatch(eng, desc, spec)
            disp.dispatch(D.op_by_id(inst, op), m)
            spec.apply(op, m)
            eng.reachable("transition")
        if not last:
            disp.reset()
    for what in ("gif", "video"):
        REC.reset()
        try:
            creator.create_gif() if what == "gif" else creator.create_video()
        except E.Unsupported:
            raise
        except E.PathAbort:
            raise
        except Exception as ex:
            eng.fail(f"C20/creator/{what}/exception-{type(ex).__name__}", f"{ex}"[:200])
            continue
        eng.reachable("state")
        frames = [fig for _, fig in REC.saved]
        if len(frames) != desc.n_ops:
            eng.fail(f"C20/creator/{what}/number-of-frames-differs-from-history-length", f"{len(frames)} vs {desc.n_ops}")
            continue
        prefix = Spec(desc)
        for k, (op, m) in enumerate(spec.history):
            prefix.apply(op, m)
            if frames[k].ax is None:
                eng.fail(f"C20/creator/{what}/frame-without-chart")
                break
            check_chart(eng, desc, prefix, frames[k], spec.makespan(), key=f"C20/creator/{what}/frame-k-does-not-show-the-first-k-operations")
        if not REC.mimsave or len(REC.mimsave[-1][1]) != desc.n_ops:
            eng.fail(f"C20/creator/{what}/encoder-does-not-receive-one-image-per-frame")
    eng.observe("mk", spec.makespan())


def order_harness(eng, sp):
    """Two symbolic frame numbers through the real naming and loading code."""
    import job_shop_lib.visualization._gantt_chart_video_and_gif_creation as V

    if eng.mode == "conc":
        return order_replay(eng, sp, V)
    if not (hasattr(V, "_save_frame") and hasattr(V, "_load_images")):
        # the two private helpers are gone: fall back to the public entry point with a concrete number of frames (stated in the evidence)
        eng.reachable("fallback-public-entry-120-frames")
        ce = E.Engine("conc", values={"i": 99, "j": 120}, choices=[])
        order_replay(ce, sp, V)
        for v in ce.violations:
            eng.fail(v.key, v.detail)
        return
    ir, jr = sp.get("irange", [1, sp["limit"]]), sp.get("jrange", [1, sp["limit"]])
    i = eng.fresh_int("i", ir[0], ir[1])
    j = eng.fresh_int("j", jr[0], jr[1])
    eng.assume(i < j)
    REC.reset()
    f1, f2 = FigStub(), FigStub()
    V._save_frame(f1, "frames_dir", i)
    V._save_frame(f2, "frames_dir", j)
    names = [p.rsplit("/", 1)[-1] for p, _ in REC.saved]
    REC.listing = names if sp["listing"] == "ij" else names[::-1]
    eng.reachable("state")
    eng.reachable("transition")
    V._load_images("frames_dir")
    loaded = list(REC.loaded)
    want = [REC.saved[0][0], REC.saved[1][0]]
    if [str(x) for x in loaded] != [str(x) for x in want]:
        eng.fail("C20/frames/frames-loaded-in-non-numeric-order", "frame j is loaded before frame i although i < j")
    else:
        eng.prove(True, "C20/frames/frames-loaded-in-non-numeric-order")


def order_replay(eng, sp, V):
    """End-to-end concrete run with j frames: real create_gantt_chart_gif, recording file system and encoder."""
    from job_shop_lib import JobShopInstance, Operation, ScheduledOperation
    from job_shop_lib.dispatching import Dispatcher, HistoryObserver

    i, j = eng.values["i"], eng.values["j"]
    n = min(j, 1200)
    if j > n:   # scale the witness down to its decade boundary: same digit pattern
        return
    inst = JobShopInstance([[Operation(0, 1) for _ in range(n)]])
    disp = Dispatcher(inst)
    hist = HistoryObserver(disp)
    for op in inst.jobs[0]:
        disp.dispatch(op, 0)
    REC.reset()
    V.create_gantt_chart_gif(inst, gif_path="x.gif", plot_function=lambda *a, **k: FigStub(), schedule_history=list(hist.history))
    images = list(REC.loaded)
    nums = [int(re.findall(r"(\d+)", str(p).rsplit("/", 1)[-1])[-1]) for p in images]
    if nums != sorted(nums) or len(nums) != n:
        bad = next((k for k in range(len(nums) - 1) if nums[k] > nums[k + 1]), None)
        eng.fail("C20/frames/frames-loaded-in-non-numeric-order", f"{n} frames: encoder receives frame {nums[bad]} before frame {nums[bad + 1]}" if bad is not None else f"{len(nums)} of {n}")


def big_models(sp):
    # solver-chosen large models (>= 2**24+1) of the path conditions, run on the un-instrumented library
    return True
