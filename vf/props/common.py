"""Helpers shared by the history-quantified property modules."""
from __future__ import annotations

from .. import drivers as D

FILTERS = {
    "none": None,
    "dominated": ["dominated_operations"],
    "non_immediate_machines": ["non_immediate_machines"],
    "non_idle": ["non_idle_machines"],
    "non_immediate_ops": ["non_immediate_operations"],
    "default_pair": ["dominated_operations", "non_idle_machines"],
}


def make_filter(name):
    """Build the filter through the library's public factories."""
    if name is None or name == "none":
        return None
    from job_shop_lib.dispatching import (create_composite_operation_filter,
                                          ready_operations_filter_factory)

    names = FILTERS[name] if isinstance(name, str) else list(name)
    if len(names) == 1:
        return ready_operations_filter_factory(names[0])
    return create_composite_operation_filter(names)


def structure_subspaces(shape_list, M, flexible, canonical=False, only_flexible=False, **extra):
    out = []
    for sh in shape_list:
        for ms in D.machine_structures(sum(sh), M, flexible=flexible, canonical=canonical,
                                       only_flexible=only_flexible):
            out.append(dict(shape=list(sh), machines=ms, **extra))
    return out


def n_interleavings(shape):
    from math import factorial

    n = factorial(sum(shape))
    for s in shape:
        n //= factorial(s)
    return n


def cost(sp):
    if sp.get("wide"):
        return 50
    c = n_interleavings(sp["shape"])
    for m in sp["machines"]:
        c *= len(m)
    return c * (2 if sp.get("filter", "none") != "none" else 1)


def attach_library_observers(disp, inst, graph="atj"):
    """Subscribes one of every observer the library ships to `disp` (history, unscheduled-operations, every feature
    observer and a composite of them, both reward observers, a residual graph updater on a freshly built graph).
    Used by 'observed' sub-spaces: the library's own observers must not disturb what the dispatcher reports."""
    from job_shop_lib.dispatching import HistoryObserver, UnscheduledOperationsObserver
    from job_shop_lib.dispatching.feature_observers import (FeatureObserverType, feature_observer_factory,
                                                            CompositeFeatureObserver)
    from job_shop_lib.graphs import (build_disjunctive_graph, build_agent_task_graph, build_agent_task_graph_with_jobs,
                                     build_complete_agent_task_graph)
    from job_shop_lib.graphs.graph_updaters import ResidualGraphUpdater
    from job_shop_lib.reinforcement_learning import MakespanReward, IdleTimeReward

    builders = {"disj": build_disjunctive_graph, "at": build_agent_task_graph, "atj": build_agent_task_graph_with_jobs,
                "cat": build_complete_agent_task_graph}
    obs = [disp.create_or_get_observer(HistoryObserver), disp.create_or_get_observer(UnscheduledOperationsObserver)]
    feats = [feature_observer_factory(t, dispatcher=disp) for t in FeatureObserverType]
    obs += feats
    obs.append(CompositeFeatureObserver(disp, feature_observers=feats))
    obs += [MakespanReward(disp), IdleTimeReward(disp)]
    obs.append(ResidualGraphUpdater(disp, builders[graph](inst)))
    return obs


def wide_subspaces(pairs=((1, 8), (0, 11), (4, 5)), histories=("jobmajor", "reverse", "roundrobin", "longfirst"), n_jobs=12, n_machines=4,
                   **extra):
    """Wide instances beyond the small-shape bounds at low cost: `n_jobs` jobs (job ids >= 8 occur), jobs i and j of each
    pair have 3 operations, the others 1; operation p of job x runs on machine (x + p) % n_machines; TWO shared symbolic
    durations (long jobs' operations / short jobs' operations), so ties are everywhere and the paths are the orderings of
    a few linear terms; instead of every interleaving four fixed histories are followed (drivers.choose_dispatch): job by
    job, last ready job first, round robin, and the 3-operation jobs first (highest job id first)."""
    out = []
    for i, j in pairs:
        shape = [3 if x in (i, j) else 1 for x in range(n_jobs)]
        machines, share = [], []
        for x, n in enumerate(shape):
            for p_ in range(n):
                machines.append([(x + p_) % n_machines])
                share.append(0 if n == 3 else 1)
        for h in histories:
            out.append(dict(shape=shape, machines=machines, share=share, history=h, wide=True, **extra))
    return out


def tall_subspaces(shapes=((7, 3), (3, 7), (5, 5)), histories=("jobmajor", "reverse", "roundrobin"), **extra):
    """Tall instances: few jobs with many operations (operation ids >= 8 inside one job, histories of 10 dispatches), on one
    machine and on two alternating machines; one shared symbolic duration per job; three fixed histories."""
    out = []
    for shape in shapes:
        for nm in (1, 2):
            machines, share = [], []
            for x, n in enumerate(shape):
                for p_ in range(n):
                    machines.append([(x + p_) % nm])
                    share.append(x)
            for h in histories:
                out.append(dict(shape=list(shape), machines=machines, share=share, history=h, wide=True, **extra))
    return out


class Bystander:
    """Other library objects alive in the same process ('bystander' sub-spaces): state must not leak between objects.

    (a) a second dispatcher - with its own UnscheduledOperationsObserver, HistoryObserver and, if asked, one of every
        library observer - on the SAME instance object, driven one step AHEAD of the object under test along its own
        history (last job first), and queried; it is reset and driven again when it completes;
    (b) a dispatcher on a DIFFERENT concrete instance of another shape that carries the same name, driven likewise.
    The oracles of the calling harness stay what they are: the object under test has to behave as if it were alone."""

    def __init__(self, inst, observers=False, recorder=None):
        from job_shop_lib import JobShopInstance, Operation
        from job_shop_lib.dispatching import Dispatcher, UnscheduledOperationsObserver, HistoryObserver
        other = JobShopInstance([[Operation(1, 3), Operation(0, 2), Operation(1, 1)], [Operation(0, 4), Operation(1, 2)],
                                 [Operation(0, 1)]], name=inst.name)
        self.disps = [Dispatcher(inst), Dispatcher(other)]
        for d in self.disps:
            UnscheduledOperationsObserver(d)
            HistoryObserver(d)
            if recorder is not None:
                recorder(d)
        if observers:
            attach_library_observers(self.disps[0], inst, "atj")
        self.step()

    def step(self):
        for d in self.disps:
            if d.schedule.is_complete():
                d.reset()
            jobs = d.instance.jobs
            for j in reversed(range(len(jobs))):
                i = d.job_next_operation_index[j]
                if i < len(jobs[j]):
                    op = jobs[j][i]
                    d.dispatch(op, op.machines[-1])
                    break
            # queries fill the bystander's caches in a state the object under test is not in
            d.available_operations()
            d.unscheduled_operations()
            d.uncompleted_operations()
            d.ongoing_operations()
            d.current_time()
            d.available_machines()
            d.available_jobs()
