"""./check <ID> --tier quick|thorough | ./check <ID> --replay <path>"""
import argparse
import os
import sys

sys.setrecursionlimit(10000)
import warnings
warnings.filterwarnings("ignore")


def main():
    ap = argparse.ArgumentParser()
    ap.add_argument("prop")
    ap.add_argument("--tier", default=os.environ.get("VERIF_TIER", "quick"), choices=["quick", "thorough"])
    ap.add_argument("--replay")
    ap.add_argument("--workers", type=int, default=None)
    ap.add_argument("--budget", type=float, default=None)
    a = ap.parse_args()
    os.environ["VERIF_TIER"] = a.tier
    from . import drivers

    if a.replay:
        sys.exit(drivers.replay(a.prop.upper(), a.replay))
    sys.exit(drivers.run_property(a.prop.upper(), a.tier, budget_s=a.budget, workers=a.workers))


if __name__ == "__main__":
    main()
