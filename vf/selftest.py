"""Differential self-test of the proxy arithmetic: random small programs over ints are run on SInt proxies and on plain ints;
for every explored path a model of the path condition must make the concrete run take the same path and give the same result.
Not a property check; run with ./check --selftest."""
import random
import sys

from . import engine as E


def programs(rng, n):
    ops = ["+", "-", "max", "min", "abs", "cmp", "floordiv", "mod", "neg", "ite"]
    for _ in range(n):
        yield [rng.choice(ops) for _ in range(rng.randint(2, 6))], rng.randint(0, 10 ** 6)


def run(prog, seed, a, b, c, mx, mn):
    rng = random.Random(seed)
    vals = [a, b, c, 3, 0]
    for op in prog:
        x, y = rng.choice(vals), rng.choice(vals)
        if op == "+":
            r = x + y
        elif op == "-":
            r = x - y
        elif op == "max":
            r = mx(x, y, rng.choice(vals))
        elif op == "min":
            r = mn([x, y])
        elif op == "abs":
            r = abs(x)
        elif op == "neg":
            r = -x
        elif op == "floordiv":
            r = x // 3 if isinstance(x, (E.SInt, int)) else x
        elif op == "mod":
            r = x % 4
        elif op == "cmp":
            r = 1 if x <= y else (2 if x == y + 1 else 0)
        else:
            r = x if (x < y or y != 2) else y
        vals.append(r)
    return vals[-1]


def main(n=300):
    rng = random.Random(7)
    paths = 0
    for prog, seed in programs(rng, n):
        eng = E.Engine()

        def h(e):
            a, b, c = e.fresh_int("a", -5, 5), e.fresh_int("b", -5, 5), e.fresh_int("c")
            e.observe("r", run(prog, seed, a, b, c, E.sym_max, E.sym_min))

        def validate(values, choices):
            return [("r", run(prog, seed, values["a"], values["b"], values["c"], max, min))]

        eng.explore(h, validate)
        paths += eng.stats["paths"]
    print(f"engine self-test: {n} programs, {paths} paths, all validated")
    return 0


if __name__ == "__main__":
    sys.exit(main())
