"""Independent semantics of job-shop dispatching, from (instance description,
history) only.  Fork-free: works on SInt (z3 terms) and on plain ints."""
from __future__ import annotations

from .engine import vmax, vmin, vand, vor, vnot, vite, veq, vsum, vcount, INF


class Desc:
    """Plain description of an instance: jobs[j][p] = op id (dense, job-major),
    machines[op] = list of eligible machine ids, dur[op] = duration value."""

    def __init__(self, shape, machines, dur):
        self.shape = list(shape)
        self.machines = [list(m) for m in machines]
        self.dur = list(dur)
        self.jobs = []
        k = 0
        self.job_of, self.pos_of = [], []
        for j, n in enumerate(shape):
            self.jobs.append(list(range(k, k + n)))
            for p in range(n):
                self.job_of.append(j)
                self.pos_of.append(p)
            k += n
        self.n_ops = k
        self.n_jobs = len(shape)
        self.n_machines = max(max(m) for m in self.machines) + 1
        self.flexible = any(len(m) > 1 for m in self.machines)


class Spec:
    """State derived from a dispatch history [(op, machine), ...]."""

    def __init__(self, desc: Desc):
        self.d = desc
        self.history = []
        self.start = {}
        self.end = {}
        self.machine_of = {}
        self.next_idx = [0] * desc.n_jobs
        self.job_free = [0] * desc.n_jobs
        self.mach_free = [0] * desc.n_machines
        self.by_machine = [[] for _ in range(desc.n_machines)]

    def copy(self):
        s = Spec(self.d)
        s.history = list(self.history)
        s.start, s.end, s.machine_of = dict(self.start), dict(self.end), dict(self.machine_of)
        s.next_idx, s.job_free, s.mach_free = list(self.next_idx), list(self.job_free), list(self.mach_free)
        s.by_machine = [list(x) for x in self.by_machine]
        return s

    # -- transitions
    def forced_start(self, op, m):
        return vmax(self.job_free[self.d.job_of[op]], self.mach_free[m])

    def apply(self, op, m):
        d = self.d
        j = d.job_of[op]
        assert d.pos_of[op] == self.next_idx[j] and m in d.machines[op]
        st = self.forced_start(op, m)
        en = st + d.dur[op]
        self.start[op], self.end[op], self.machine_of[op] = st, en, m
        self.job_free[j] = en
        self.mach_free[m] = en
        self.next_idx[j] += 1
        self.by_machine[m].append(op)
        self.history.append((op, m))
        return st

    # -- structure (concrete on a path)
    def ready_ops(self):
        d = self.d
        return [d.jobs[j][self.next_idx[j]] for j in range(d.n_jobs)
                if self.next_idx[j] < len(d.jobs[j])]

    def scheduled_ops(self):
        return sorted(self.start)

    def unscheduled_ops(self):
        return [o for o in range(self.d.n_ops) if o not in self.start]

    def is_complete(self):
        return len(self.start) == self.d.n_ops

    # -- values
    def makespan(self):
        if not self.end:
            return 0
        return vmax(*[self.end[o] for o in self.end]) if len(self.end) > 1 else \
            next(iter(self.end.values()))

    def earliest_start(self, op):
        """max(job free, min over eligible machines of machine free)."""
        d = self.d
        mf = [self.mach_free[m] for m in d.machines[op]]
        return vmax(self.job_free[d.job_of[op]], vmin(*mf) if len(mf) > 1 else mf[0])

    def min_start(self, ops):
        """Minimum over ops and their eligible machines of the forced start;
        makespan if ops is empty (the library's documented convention)."""
        if not ops:
            return self.makespan()
        xs = [self.forced_start(o, m) for o in ops for m in self.d.machines[o]]
        return vmin(*xs) if len(xs) > 1 else xs[0]

    def now(self, available=None):
        return self.min_start(self.ready_ops() if available is None else available)

    def is_ongoing(self, op, now):
        """scheduled and not finished at `now` (bool or SBool)."""
        return self.end[op] > now

    def is_completed(self, op, now):
        return self.end[op] <= now

    # -- feasibility of the library's schedule lists (C01 oracle)
    def idle_time(self):
        """Sum over machines of (last end - sum of durations on it)."""
        tot = 0
        for m, ops in enumerate(self.by_machine):
            if ops:
                tot = tot + self.end[ops[-1]] - vsum([self.d.dur[o] for o in ops])
        return tot


def feasibility_obligations(desc: Desc, lists):
    """lists[m] = [(op_id, start, machine_attr)] read from the library's
    schedule.  Returns (concrete_problems, list of (cond, key))."""
    problems = []
    conds = []
    seen = {}
    for m, lst in enumerate(lists):
        for i, (op, st, mattr) in enumerate(lst):
            if op in seen:
                problems.append(("duplicate-operation", f"op {op} twice"))
            seen[op] = (st, m)
            if mattr != m:
                problems.append(("machine-attr-mismatch", f"op {op} in list {m} has machine {mattr}"))
            if m not in desc.machines[op]:
                problems.append(("ineligible-machine", f"op {op} on machine {m}"))
            conds.append((st >= 0, "negative-start"))
            if i > 0:
                pop, pst, _ = lst[i - 1]
                conds.append((st >= pst + desc.dur[pop], "machine-overlap-or-order"))
    for op, (st, m) in seen.items():
        p = desc.pos_of[op]
        if p > 0:
            pred = op - 1
            if pred not in seen:
                problems.append(("job-predecessor-missing", f"op {op} scheduled before op {pred}"))
            else:
                conds.append((st >= seen[pred][0] + desc.dur[pred], "job-order-or-overlap"))
    return problems, conds


__all__ = ["Desc", "Spec", "feasibility_obligations", "vmax", "vmin", "vand", "vor",
           "vnot", "vite", "veq", "vsum", "vcount", "INF"]
