"""Leaf kernels of job_shop_lib under a second, independent engine: CrossHair
(symbolic execution of the real Python code with z3, per path).  Each function
calls the REAL library on symbolic ints; its PEP316 postcondition is searched
for a counterexample by `crosshair check`.  Used by C02, C13 and C15 in
addition to the symx engine (see vf/xhair/run.py)."""
from job_shop_lib import JobShopInstance, Operation, ScheduledOperation
from job_shop_lib.dispatching import Dispatcher
from job_shop_lib.reinforcement_learning import MakespanReward, IdleTimeReward


def c15_operation_eq(m1: int, d1: int, m2: int, d2: int) -> bool:
    """
    pre: 0 <= m1 <= 2 and 0 <= m2 <= 2
    post: _ == (m1 == m2 and d1 == d2)
    """
    return Operation(m1, d1) == Operation(m2, d2)


def c15_operation_eq_symmetric_hash(m1: int, d1: int, m2: int, d2: int) -> bool:
    """
    pre: 0 <= m1 <= 2 and 0 <= m2 <= 2
    post: _
    """
    a, b = Operation(m1, d1), Operation(m2, d2)
    e1, e2 = a == b, b == a
    return e1 == e2 and a == a and (not e1 or hash(a) == hash(b))


def c15_scheduled_operation_eq(d1: int, s1: int, k1: int, d2: int, s2: int, k2: int) -> bool:
    """
    pre: 0 <= k1 <= 1 and 0 <= k2 <= 1
    post: _ == (d1 == d2 and s1 == s2 and k1 == k2)
    """
    a = ScheduledOperation(Operation([0, 1], d1), s1, k1)
    b = ScheduledOperation(Operation([0, 1], d2), s2, k2)
    return a == b


def c02_end_time(d: int, s: int) -> int:
    """
    post: _ == s + d
    """
    return ScheduledOperation(Operation(0, d), s, 0).end_time


def c02_forced_starts(d0: int, d1: int, d2: int, d3: int, ma: int, mb: int) -> bool:
    """
    pre: d0 >= 0 and d1 >= 0 and d2 >= 0 and d3 >= 0 and 0 <= ma <= 1 and 0 <= mb <= 1
    post: _
    """
    # jobs: J0 = [m0:d0, mb:d1], J1 = [ma:d2, ma:d3]; history: J0.0, J1.0, J0.1, J1.1
    inst = JobShopInstance([[Operation(0, d0), Operation(mb, d1)], [Operation(ma, d2), Operation(ma, d3)]])
    disp = Dispatcher(inst)
    for op in (inst.jobs[0][0], inst.jobs[1][0], inst.jobs[0][1], inst.jobs[1][1]):
        disp.dispatch(op, op.machine_id)
    st = {s.operation.operation_id: s.start_time for lst in disp.schedule.schedule for s in lst}
    mfree = [0, 0]
    s0 = 0
    mfree[0] = d0
    s2 = mfree[ma]
    e2 = s2 + d2
    mfree[ma] = e2
    s1 = max(d0, mfree[mb])
    e1 = s1 + d1
    mfree[mb] = e1
    s3 = max(e2, mfree[ma])
    return st[0] == s0 and st[2] == s2 and st[1] == s1 and st[3] == s3 and disp.schedule.makespan() == max(e1, s3 + d3, d0)


def c02_tracking(d0: int, d1: int, d2: int, ma: int):
    """
    pre: d0 >= 0 and d1 >= 0 and d2 >= 0 and 0 <= ma <= 1
    post: _
    """
    # jobs: J0 = [m0:d0, m1:d1], J1 = [ma:d2]; history: J0.0, J1.0, J0.1
    inst = JobShopInstance([[Operation(0, d0), Operation(1, d1)], [Operation(ma, d2)]])
    disp = Dispatcher(inst)
    disp.dispatch(inst.jobs[0][0], 0)
    disp.dispatch(inst.jobs[1][0], ma)
    disp.dispatch(inst.jobs[0][1], 1)
    s2 = d0 if ma == 0 else 0
    e2 = s2 + d2
    s1 = max(d0, e2) if ma == 1 else d0
    e1 = s1 + d1
    mfree = [e2 if ma == 0 else d0, e1]
    ok = disp.machine_next_available_time == mfree and disp.job_next_available_time == [e1, e2] \
        and disp.job_next_operation_index == [2, 1] and disp.schedule.makespan() == max(e1, e2) \
        and disp.schedule.num_scheduled_operations == 3 and disp.schedule.is_complete()
    return ok


def c13_rewards(d0: int, d1: int, d2: int, ma: int):
    """
    pre: d0 >= 0 and d1 >= 0 and d2 >= 0 and 0 <= ma <= 1
    post: _
    """
    inst = JobShopInstance([[Operation(0, d0), Operation(1, d1)], [Operation(ma, d2)]])
    disp = Dispatcher(inst)
    mk, idle = MakespanReward(disp), IdleTimeReward(disp)
    disp.dispatch(inst.jobs[0][0], 0)
    disp.dispatch(inst.jobs[1][0], ma)
    disp.dispatch(inst.jobs[0][1], 1)
    s2 = d0 if ma == 0 else 0
    e2 = s2 + d2
    s1 = max(d0, e2) if ma == 1 else d0
    e1 = s1 + d1
    makespan = max(e1, e2, d0)
    # idle time per machine: last end minus the sum of durations on it
    idle0 = (e2 - d0 - d2) if ma == 0 else 0
    idle1 = (e1 - d1 - d2) if ma == 1 else (e1 - d1)
    return len(mk.rewards) == 3 and len(idle.rewards) == 3 and sum(mk.rewards) == -makespan \
        and all(r <= 0 for r in mk.rewards) and all(r <= 0 for r in idle.rewards) and sum(idle.rewards) == -(idle0 + idle1)
