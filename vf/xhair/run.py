"""Runs `crosshair check` on the kernels of a property (second engine)."""
from __future__ import annotations

import ast
import os
import re
import subprocess
import sys
import time

HERE = os.path.dirname(os.path.abspath(__file__))
KERNELS = os.path.join(HERE, "kernels.py")


def kernel_lines(prefix):
    tree = ast.parse(open(KERNELS).read())
    return {n.name: n.lineno + 1 for n in tree.body if isinstance(n, ast.FunctionDef) and n.name.startswith(prefix)}


def run(prefix, per_condition_timeout=25, wall=120):
    """Returns {kernel: (verdict, message)}; verdict in confirmed / counterexample / unknown."""
    out = {}
    procs = {}
    exe = os.path.join(os.path.dirname(sys.executable), "crosshair")
    env = dict(os.environ, PYTHONPATH=os.pathsep.join(p for p in ("/repo", os.environ.get("PYTHONPATH", "")) if p))
    for name, line in kernel_lines(prefix).items():
        cmd = [exe, "check", "--report_all", "--per_condition_timeout", str(per_condition_timeout), f"{KERNELS}:{line}"]
        procs[name] = subprocess.Popen(cmd, stdout=subprocess.PIPE, stderr=subprocess.STDOUT, text=True, env=env)
    deadline = time.time() + wall
    for name, p in procs.items():
        try:
            o, _ = p.communicate(timeout=max(1, deadline - time.time()))
        except subprocess.TimeoutExpired:
            p.kill()
            out[name] = ("unknown", "timeout")
            continue
        o = o.strip()
        if "Confirmed over all paths" in o:
            out[name] = ("confirmed", o.splitlines()[-1][-200:])
        elif re.search(r"error: (false|.*Error|.*Exception)", o) and "when calling" in o:
            out[name] = ("counterexample", o.splitlines()[-1][-400:])
        else:
            out[name] = ("unknown", (o.splitlines() or [""])[-1][-200:])
    return out


def replay(name, message):
    """Re-run a CrossHair counterexample concretely: returns True if the postcondition really fails."""
    m = re.search(r"when calling (\w+)\((.*)\)", message)
    if not m or m.group(1) != name:
        return None
    import importlib

    mod = importlib.import_module("vf.xhair.kernels")
    fn = getattr(mod, name)
    try:
        args = eval("dict(" + m.group(2) + ")") if "=" in m.group(2) else None
        res = fn(**args) if args is not None else fn(*eval("(" + m.group(2) + ",)"))
    except Exception:
        return True
    doc = fn.__doc__ or ""
    post = re.search(r"post:\s*(.*)", doc)
    if not post:
        return None
    names = dict(args or {})
    names["_"] = res
    try:
        return not bool(eval(post.group(1), {"max": max, "min": min}, names))
    except Exception:
        return None


if __name__ == "__main__":
    t = time.time()
    for k, v in run(sys.argv[1] if len(sys.argv) > 1 else "c").items():
        print(k, v)
    print(round(time.time() - t, 1), "s")
